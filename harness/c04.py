"""C04 -- parameter transforms are bijections with exact log-Jacobians.

Real code executed symbolically: utils.logit, utils.sigmoid,
BoundedTransform.__init__/to_unit_interval/from_unit_interval/interval_check,
LogitTransform, ProbitTransform, PeriodicTransform, AffineTransform,
IdentityTransform, CompositeTransform.__init__/fit/forward/inverse,
utils.update_at_indices, utils.copy_array.

The Jacobian oracle is sx.diff applied to the term of the forward map that the
code itself produced.
"""

from __future__ import annotations

import itertools
import math

import numpy as np

from harness.common import Check, main, sx, core, z3
from harness.util import env_array
from sx import diff

EPS = 1e-6


def _rows(a):
    """list of rows, each a list of terms, of a 2-d array"""
    return [sx.terms(a[i]) for i in range(a.shape[0])]


def prove_logj(ctx, ys, xs, logj, label):
    """exp(logj) == |det d ys / d xs|"""
    J = diff.jacobian(ys, xs, ctx)
    dt = diff.det(J)
    e = sx.term(sx.exp(sx.asarray(logj)))
    ctx.prove(z3.And(e > 0, z3.Or(e == dt, e == -dt)), label)


def prove_eq_exp(ctx, a, b, label):
    """a == b for log-space quantities, proved as exp(a-b) == 1 (exp is injective)."""
    ctx.prove(sx.term(sx.exp(sx.asarray(a - b))) == 1, label)


class C04(Check):
    pid = "C04"
    required_labels = [
        "logit/roundtrip",
        "logit/logj",
        "probit/roundtrip",
        "probit/logj",
        "periodic/range",
        "periodic/congruent",
        "affine/logj",
        "composite/logj",
        "composite/roundtrip",
        "composite/argument_untouched",
    ]
    stubs = [
        "scipy.special.erf/erfinv -> sx.special symbolic versions (strictly monotone, odd, inverse pair, range, derivative rules)",
        "float constants math.sqrt(2), math.log(2*pi) are read as the exact constants",
        "x % w is encoded as x = k*w + r, 0 <= r < w, k an integer in [-4, 4] (inputs more than four periods away from the interval are outside)",
    ]
    outside = [
        "ulp-level behaviour of float % (PeriodicTransform.forward(lower - 1e-20) == upper)",
        "torch / jax namespaces",
        "the neural part of FlowPreconditioningTransform (its wrapper algebra is C03)",
        "infinite prior bounds (cannot be represented in the real sort)",
    ]
    bounds = {
        "quick": {"d": [1, 2], "batch": 2, "composite_d": 2, "eps": EPS, "periodic_range_periods": 4},
        "thorough": {"d": [1, 2, 3], "batch": 3, "composite_d": 3, "eps": EPS, "periodic_range_periods": 4},
    }

    def configs(self, tier):
        out = []
        ds = [1, 2] if tier == "quick" else [2, 3]
        b = 2 if tier == "quick" else 3
        for d in ds:
            for kind in ("logit", "probit", "periodic", "affine"):
                out.append({"name": f"{kind}-d{d}", "kind": kind, "d": d, "batch": b})
        out.append({"name": "identity", "kind": "identity", "d": 2, "batch": b})
        d = 2 if tier == "quick" else 3
        for per, bnd, aff in itertools.product([False, True], ["logit", "probit", None], [False, True]):
            if not per and bnd is None and not aff:
                continue
            if bnd == "logit" and not per and not aff:
                out.append({"name": "composite-noper-logit-noaff-revdict", "kind": "composite", "periodic": False, "bounded": "logit", "affine": False, "d": d, "batch": 2, "reversed_dict": True})
            out.append(
                {
                    "name": f"composite-{'per' if per else 'noper'}-{bnd or 'off'}-{'aff' if aff else 'noaff'}",
                    "kind": "composite",
                    "periodic": per,
                    "bounded": bnd,
                    "affine": aff,
                    "d": d,
                    "batch": 2,
                }
            )
        return out

    # ------------------------------------------------------------------
    def harness(self, cfg):
        kind = cfg["kind"]
        return getattr(self, "h_" + kind)(cfg)

    def _bounds(self, ctx, d):
        lo = sx.sym("lo", d)
        hi = sx.sym("hi", d)
        for a, b in zip(sx.terms(lo), sx.terms(hi)):
            ctx.add_assume(a < b)
        return lo, hi

    def _inside(self, ctx, x, lo, hi, cols=None):
        """x strictly inside the bounds, outside the clipping margin."""
        L, H = sx.terms(lo), sx.terms(hi)
        for r in _rows(x):
            for k, t in enumerate(r):
                if cols is not None and k not in cols:
                    continue
                j = k if cols is None else cols.index(k)
                w = H[j] - L[j]
                ctx.add_assume(z3.And(t >= L[j] + core.rv(EPS) * w, t <= L[j] + core.rv(1.0 - EPS) * w))

    def h_bounded(self, cfg, cls_name):
        import aspire.transforms as T

        d, b = cfg["d"], cfg["batch"]
        name = cls_name.lower().replace("transform", "")

        def h(ctx):
            lo, hi = self._bounds(ctx, d)
            tr = getattr(T, cls_name)(lower=lo, upper=hi, xp=sx, eps=EPS)
            x = sx.sym("x", (b, d))
            self._inside(ctx, x, lo, hi)
            y, lj = tr.forward(x)
            ctx.prove(y.shape == (b, d) and lj.shape == (b,), f"{name}/shape")
            xr, lji = tr.inverse(y)
            X, Y, XR = _rows(x), _rows(y), _rows(xr)
            for i in range(b):
                for k in range(d):
                    ctx.prove(XR[i][k] == X[i][k], f"{name}/roundtrip")
                prove_logj(ctx, Y[i], X[i], lj[i], f"{name}/logj")
                prove_eq_exp(ctx, lji[i], -lj[i], f"{name}/inverse_logj")
            f = tr.fit(x)
            for a, c in zip(sx.terms(f), sx.terms(y)):
                ctx.prove(a == c, f"{name}/fit")

            def runner(env):
                l = np.asarray(env_array(env, "lo", (d,)))
                u = np.asarray(env_array(env, "hi", (d,)))
                xx = np.asarray(env_array(env, "x", (b, d)))
                t2 = getattr(T, cls_name)(lower=l, upper=u, xp=np, eps=EPS)
                yy, ll = t2.forward(xx)
                return {"y": yy, "lj": ll}

            ctx.validate({"y": sx.terms(y), "lj": sx.terms(lj)}, runner)

        def h_margin(ctx):
            # inside the margin forward equals the clipped value; the margin is exactly eps
            lo, hi = self._bounds(ctx, d)
            tr = getattr(T, cls_name)(lower=lo, upper=hi, xp=sx, eps=EPS)
            x = sx.sym("x", (1, d))
            L, H = sx.terms(lo), sx.terms(hi)
            for k, t in enumerate(sx.terms(x)):
                ctx.add_assume(z3.And(t >= L[k], t <= H[k]))
            y, lj = tr.forward(x)
            # reference: forward at the clipped point
            xc = sx.asarray(
                [[sx.clip(x[0, k], lo[k] + EPS * (hi[k] - lo[k]), lo[k] + (1.0 - EPS) * (hi[k] - lo[k])) for k in range(d)]]
            )
            y2, lj2 = tr.forward(xc)
            for a, c in zip(sx.terms(y), sx.terms(y2)):
                ctx.prove(a == c, f"{name}/margin")

        def h_back(ctx):
            # forward(inverse(y)) == y
            lo, hi = self._bounds(ctx, d)
            tr = getattr(T, cls_name)(lower=lo, upper=hi, xp=sx, eps=EPS)
            y = sx.sym("y", (1, d))
            if cls_name == "LogitTransform":
                s = sx.exp(y)
                for t in sx.terms(s):
                    ctx.add_assume(z3.And(t >= core.rv(2 * EPS) * (1 + t), t <= (1 - core.rv(2 * EPS)) * (1 + t)))
            else:
                from scipy.special import erf

                s = erf(y / math.sqrt(2))
                for t in sx.terms(s):
                    ctx.add_assume(z3.And(t >= -1 + core.rv(4 * EPS), t <= 1 - core.rv(4 * EPS)))
            x, lji = tr.inverse(y)
            y2, lj = tr.forward(x)
            for a, c in zip(sx.terms(y2), sx.terms(y)):
                if cls_name == "LogitTransform":
                    ctx.prove(sx.term(sx.exp(sx.asarray(a - c))) == 1, f"{name}/back")
                else:
                    ctx.prove(a == c, f"{name}/back")
            prove_eq_exp(ctx, lj[0], -lji[0], f"{name}/back_logj")

        def all3(ctx):
            sub = ctx.cfg.get("sub")
            {"main": h, "margin": h_margin, "back": h_back}[sub](ctx)

        return all3

    def h_logit(self, cfg):
        return self.h_bounded(cfg, "LogitTransform")

    def h_probit(self, cfg):
        return self.h_bounded(cfg, "ProbitTransform")

    def h_periodic(self, cfg):
        import aspire.transforms as T

        d, b = cfg["d"], cfg["batch"]

        def h(ctx):
            lo, hi = self._bounds(ctx, d)
            tr = T.PeriodicTransform(lower=lo, upper=hi, xp=sx)
            x = sx.sym("x", (b, d))
            L, H = sx.terms(lo), sx.terms(hi)
            K = ctx.mod_range
            for r in _rows(x):
                for k, t in enumerate(r):
                    w = H[k] - L[k]
                    ctx.add_assume(z3.And(t >= L[k] - (K - 1) * w, t <= H[k] + (K - 1) * w))
            for which, fn in (("forward", tr.forward), ("inverse", tr.inverse), ("fit", None)):
                if fn is None:
                    y = tr.fit(x)
                    lj = None
                else:
                    y, lj = fn(x)
                for r, rx in zip(_rows(y), _rows(x)):
                    for k, (t, tx) in enumerate(zip(r, rx)):
                        w = H[k] - L[k]
                        ctx.prove(z3.And(t >= L[k], t < H[k]), "periodic/range")
                        ctx.prove(z3.Or(*[t - tx == j * w for j in range(-K - 1, K + 2)]), "periodic/congruent")
                if lj is not None:
                    ctx.prove(lj.shape == (b,), "periodic/shape")
                    for t in sx.terms(lj):
                        ctx.prove(t == 0, "periodic/logj")
            # a point already inside is left alone
            xin = sx.sym("xin", (1, d))
            for k, t in enumerate(sx.terms(xin)):
                ctx.add_assume(z3.And(t >= L[k], t < H[k]))
            yin, _ = tr.forward(xin)
            for a, c in zip(sx.terms(yin), sx.terms(xin)):
                ctx.prove(a == c, "periodic/identity_inside")

            def runner(env):
                l = np.asarray(env_array(env, "lo", (d,)))
                u = np.asarray(env_array(env, "hi", (d,)))
                xx = np.asarray(env_array(env, "x", (b, d)))
                t2 = T.PeriodicTransform(lower=l, upper=u, xp=np)
                return {"y": t2.forward(xx)[0]}

            ctx.validate({"y": sx.terms(tr.forward(x)[0])}, runner, tol=1e-5)

        return h

    def h_affine(self, cfg):
        import aspire.transforms as T

        d, b = cfg["d"], cfg["batch"]

        def h(ctx):
            tr = T.AffineTransform(xp=sx)
            data = sx.sym("a", (b + 1, d))
            # non-degenerate fitting data: first two rows differ in every column
            for k in range(d):
                ctx.add_assume(sx.term(data[0, k]) != sx.term(data[1, k]))
            f = tr.fit(data)
            y0, lj0 = tr.forward(data)
            for a, c in zip(sx.terms(f), sx.terms(y0)):
                ctx.prove(a == c, "affine/fit")
            x = sx.sym("x", (b, d))
            y, lj = tr.forward(x)
            xr, lji = tr.inverse(y)
            X, Y, XR = _rows(x), _rows(y), _rows(xr)
            for i in range(b):
                for k in range(d):
                    ctx.prove(XR[i][k] == X[i][k], "affine/roundtrip")
                prove_logj(ctx, Y[i], X[i], lj[i], "affine/logj")
                prove_eq_exp(ctx, lji[i], -lj[i], "affine/inverse_logj")
            # the fitted data are standardised: zero mean, unit variance per column
            for k in range(d):
                col = [sx.term(f[i, k]) for i in range(b + 1)]
                ctx.prove(z3.Sum(col) == 0, "affine/zero_mean")
                ctx.prove(z3.Sum([c * c for c in col]) == b + 1, "affine/unit_var")
            z = sx.sym("z", (1, d))
            xz, _ = tr.inverse(z)
            zz, _ = tr.forward(xz)
            for a, c in zip(sx.terms(zz), sx.terms(z)):
                ctx.prove(a == c, "affine/back")

            def runner(env):
                aa = np.asarray(env_array(env, "a", (b + 1, d)))
                xx = np.asarray(env_array(env, "x", (b, d)))
                t2 = T.AffineTransform(xp=np)
                t2.fit(aa)
                yy, ll = t2.forward(xx)
                return {"y": yy, "lj": ll}

            ctx.validate({"y": sx.terms(y), "lj": sx.terms(lj)}, runner)

        return h

    def h_identity(self, cfg):
        import aspire.transforms as T

        d, b = cfg["d"], cfg["batch"]

        def h(ctx):
            tr = T.IdentityTransform(xp=sx)
            x = sx.sym("x", (b, d))
            for fn in (tr.forward, tr.inverse):
                y, lj = fn(x)
                for a, c in zip(sx.terms(y), sx.terms(x)):
                    ctx.prove(a == c, "identity/map")
                ctx.prove(lj.shape == (b,), "identity/shape")
                for t in sx.terms(lj):
                    ctx.prove(t == 0, "identity/logj")
            for a, c in zip(sx.terms(tr.fit(x)), sx.terms(x)):
                ctx.prove(a == c, "identity/fit")

        return h

    def h_composite(self, cfg):
        import aspire.transforms as T

        d, b = cfg["d"], cfg["batch"]
        per, bnd, aff = cfg["periodic"], cfg["bounded"], cfg["affine"]
        params = [f"p{k}" for k in range(d)]
        periodic = ["p0"] if per else []

        def make(xp, lo, hi):
            pb = {p: [lo[k], hi[k]] for k, p in enumerate(params)}
            if cfg.get("reversed_dict"):
                # the same bounds given in another key order (as a dictionary
                # reloaded from HDF5, which sorts keys, would be)
                pb = {p: pb[p] for p in reversed(params)}
            return T.CompositeTransform(
                parameters=params,
                periodic_parameters=periodic,
                prior_bounds=pb,
                bounded_to_unbounded=bnd is not None,
                bounded_transform=bnd or "logit",
                affine_transform=aff,
                xp=xp,
                eps=EPS,
            )

        def h(ctx):
            lo, hi = self._bounds(ctx, d)
            tr = make(sx, lo, hi)
            L, H = sx.terms(lo), sx.terms(hi)
            bcols = [k for k, p in enumerate(params) if bnd is not None and p not in periodic]
            pcols = [k for k, p in enumerate(params) if p in periodic]
            if bnd is not None:
                ctx.prove(tr.bounded_parameters == [params[k] for k in bcols], "composite/which_bounded")
            data = sx.sym("a", (3, d))
            x = sx.sym("x", (b, d))
            for arr in (data, x):
                for r in _rows(arr):
                    for k in bcols:
                        w = H[k] - L[k]
                        ctx.add_assume(z3.And(r[k] >= L[k] + core.rv(EPS) * w, r[k] <= L[k] + core.rv(1.0 - EPS) * w))
                    for k in pcols:
                        ctx.add_assume(z3.And(r[k] >= L[k], r[k] < H[k]))
            if aff:
                # non-degenerate data in the transformed space: assume the first two
                # rows differ in every column (the maps are injective there)
                for k in range(d):
                    ctx.add_assume(sx.term(data[0, k]) != sx.term(data[1, k]))
            f = tr.fit(data)
            y0, _ = tr.forward(data)
            for a, c in zip(sx.terms(f), sx.terms(y0)):
                ctx.prove(a == c, "composite/fit")
            if aff:
                # Every fitted state is some (mean, std > 0): re-fit the real
                # AffineTransform on two rows mu -/+ sigma so that the
                # remaining obligations quantify over all fitted states with
                # simple terms (fit-on-symbolic-data was checked just above).
                mu = sx.sym("mu", d)
                sg = sx.sym("sg", d)
                for t in sx.terms(sg):
                    ctx.add_assume(t > 0)
                tr._affine_transform.fit(sx.stack([mu - sg, mu + sg]))
                for t, t2 in zip(sx.terms(tr._affine_transform._std), sx.terms(sg)):
                    ctx.prove(t == t2, "composite/affine_state")
            # the maps return new arrays: the caller's argument keeps its values (a kernel
            # that reuses the buffer it handed to the target would otherwise see it change)
            x_before = sx.terms(x)
            y, lj = tr.forward(x)
            ctx.prove(y.shape == (b, d) and lj.shape == (b,), "composite/shape")
            ok_arg = ctx.prove(all(p.eq(q) for p, q in zip(x_before, sx.terms(x))), "composite/argument_untouched", detail={"map": "forward"})
            y_before = sx.terms(y)
            xr, lji = tr.inverse(y)
            ok_arg = ctx.prove(all(p.eq(q) for p, q in zip(y_before, sx.terms(y))), "composite/argument_untouched", detail={"map": "inverse"}) and ok_arg
            if not ok_arg:
                return
            X, Y, XR = _rows(x), _rows(y), _rows(xr)
            for i in range(b):
                for k in range(d):
                    ctx.prove(XR[i][k] == X[i][k], "composite/roundtrip")
                prove_logj(ctx, Y[i], X[i], lj[i], "composite/logj")
                prove_eq_exp(ctx, lji[i], -lj[i], "composite/inverse_logj")
            # untouched columns stay untouched when no affine map is applied
            if not aff:
                for i in range(b):
                    for k in range(d):
                        if k not in bcols and k not in pcols:
                            ctx.prove(Y[i][k] == X[i][k], "composite/untouched")
            # periodic column: any real input is wrapped (points outside the interval)
            if per:
                xo = sx.sym("xo", (1, d))
                K = ctx.mod_range
                r = sx.terms(xo)
                for k in bcols:
                    w = H[k] - L[k]
                    ctx.add_assume(z3.And(r[k] >= L[k] + core.rv(EPS) * w, r[k] <= L[k] + core.rv(1.0 - EPS) * w))
                for k in pcols:
                    w = H[k] - L[k]
                    ctx.add_assume(z3.And(r[k] >= L[k] - (K - 1) * w, r[k] <= H[k] + (K - 1) * w))
                yo, ljo = tr.forward(xo)
                xback, _ = tr.inverse(yo)
                for k in pcols:
                    t = sx.terms(xback)[k]
                    w = H[k] - L[k]
                    ctx.prove(z3.And(t >= L[k], t < H[k]), "composite/periodic_range")
                    ctx.prove(z3.Or(*[t - r[k] == j * w for j in range(-K - 1, K + 2)]), "composite/periodic_congruent")

            def runner(env):
                l = np.asarray(env_array(env, "lo", (d,)))
                u = np.asarray(env_array(env, "hi", (d,)))
                aa = np.asarray(env_array(env, "a", (3, d)))
                xx = np.asarray(env_array(env, "x", (b, d)))
                t2 = make(np, l, u)
                t2.fit(aa)
                if aff:
                    mm = np.asarray(env_array(env, "mu", (d,)))
                    ss = np.asarray(env_array(env, "sg", (d,), default=1.0))
                    t2._affine_transform.fit(np.stack([mm - ss, mm + ss]))
                yy, ll = t2.forward(xx)
                return {"y": yy, "lj": ll}

            ctx.validate({"y": sx.terms(y), "lj": sx.terms(lj)}, runner, tol=1e-5)

        return h

    def configs_expand(self, cfgs):
        out = []
        for c in cfgs:
            if c["kind"] in ("logit", "probit"):
                for sub in ("main", "margin", "back"):
                    c2 = dict(c)
                    c2["sub"] = sub
                    c2["name"] = c["name"] + "-" + sub
                    out.append(c2)
            else:
                out.append(c)
        return out

    # ------------------------------------------------------------------
    def to_cex(self, fl):
        cfg = fl["cfg"]
        env = {k: v for k, v in fl["env"].items() if k != "__purified__" and "!" not in k}
        return {"cfg": cfg, "label": fl["label"], "env": env}

    def replay(self, cex):
        return replay_c04(cex)


_orig_configs = C04.configs
C04.configs = lambda self, tier: self.configs_expand(_orig_configs(self, tier))


# ---------------------------------------------------------------------------
# replay: the real transforms on NumPy, finite-difference Jacobian oracle


def _fd_logdet(fwd, x, h=1e-6, side=0):
    """log|det J| by finite differences; side=0 central, +1/-1 one-sided (the
    maps are only piecewise smooth: wrap and clip points)."""
    d = x.shape[-1]
    J = np.zeros((d, d))
    for m in range(d):
        xp_, xm = x.copy(), x.copy()
        step = h * max(1.0, abs(x[0, m]))
        if side >= 0:
            xp_[0, m] += step
        if side <= 0:
            xm[0, m] -= step
        J[:, m] = (fwd(xp_)[0][0] - fwd(xm)[0][0]) / ((2 if side == 0 else 1) * step)
    dd = abs(np.linalg.det(J))
    return math.log(dd) if dd > 0 and math.isfinite(dd) else -math.inf


def replay_c04(cex):
    import aspire.transforms as T

    cfg = cex["cfg"]
    env = cex["env"]
    kind = cfg["kind"]
    d, b = cfg["d"], cfg["batch"]
    bad = []
    tol = 1e-4

    def close(a, c, what):
        a, c = np.asarray(a, float), np.asarray(c, float)
        if a.shape != c.shape or not np.all(np.isfinite(a)) or np.max(np.abs(a - c) / np.maximum(1.0, np.abs(c))) > tol:
            bad.append(f"{what}: got {a.tolist()}, expected {c.tolist()}")

    lo = np.asarray(env_array(env, "lo", (d,)))
    hi = np.asarray(env_array(env, "hi", (d,)))
    with np.errstate(all="ignore"):
        if kind in ("logit", "probit"):
            cls = T.LogitTransform if kind == "logit" else T.ProbitTransform
            tr = cls(lower=lo, upper=hi, xp=np, eps=EPS)
            sub = cfg.get("sub", "main")
            if sub == "back":
                y = np.asarray(env_array(env, "y", (1, d)))
                x, lji = tr.inverse(y)
                y2, lj = tr.forward(x)
                close(y2, y, "forward(inverse(y))")
                close(lj, -lji, "forward log-Jacobian vs -inverse")
            else:
                nb = 1 if sub == "margin" else b
                x = np.asarray(env_array(env, "x", (nb, d)))
                _check_map(tr, x, bad, close, margin=(sub == "margin"), lo=lo, hi=hi)
        elif kind == "periodic":
            tr = T.PeriodicTransform(lower=lo, upper=hi, xp=np)
            x = np.asarray(env_array(env, "x", (b, d)))
            for nm, fn in (("forward", tr.forward), ("inverse", tr.inverse)):
                y, lj = fn(x)
                if not (np.all(y >= lo) and np.all(y < hi)):
                    bad.append(f"{nm}: image outside [lower, upper): {y.tolist()}")
                k = (y - x) / (hi - lo)
                if np.max(np.abs(k - np.round(k))) > 1e-6:
                    bad.append(f"{nm}: not congruent modulo the period: {(y - x).tolist()}")
                if np.any(lj != 0) or lj.shape != (b,):
                    bad.append(f"{nm}: log-Jacobian {lj.tolist()}")
        elif kind == "affine":
            tr = T.AffineTransform(xp=np)
            a = np.asarray(env_array(env, "a", (b + 1, d)))
            f = tr.fit(a)
            close(f, tr.forward(a)[0], "fit vs forward")
            close(f.mean(0), np.zeros(d), "fitted mean")
            close(f.std(0), np.ones(d), "fitted std")
            x = np.asarray(env_array(env, "x", (b, d)))
            _check_map(tr, x, bad, close)
        elif kind == "identity":
            tr = T.IdentityTransform(xp=np)
            x = np.asarray(env_array(env, "x", (b, d)))
            _check_map(tr, x, bad, close)
        elif kind == "composite":
            params = [f"p{k}" for k in range(d)]
            pbr = {p: [lo[k], hi[k]] for k, p in enumerate(params)}
            if cfg.get("reversed_dict"):
                pbr = {p: pbr[p] for p in reversed(params)}
            tr = T.CompositeTransform(
                parameters=params,
                periodic_parameters=["p0"] if cfg["periodic"] else [],
                prior_bounds=pbr,
                bounded_to_unbounded=cfg["bounded"] is not None,
                bounded_transform=cfg["bounded"] or "logit",
                affine_transform=cfg["affine"],
                xp=np,
                eps=EPS,
            )
            a = np.asarray(env_array(env, "a", (3, d)))
            f = tr.fit(a)
            close(f, tr.forward(a)[0], "fit vs forward")
            if cfg["affine"]:
                mm = np.asarray(env_array(env, "mu", (d,)))
                ss = np.asarray(env_array(env, "sg", (d,), default=1.0))
                tr._affine_transform.fit(np.stack([mm - ss, mm + ss]))
            x = np.asarray(env_array(env, "x", (b, d)))
            _check_map(tr, x, bad, close)
            if cfg["periodic"]:
                xo = np.asarray(env_array(env, "xo", (1, d)))
                if np.all(xo[:, 1:] > lo[1:]) and np.all(xo[:, 1:] < hi[1:]):
                    yo, _ = tr.forward(xo)
                    xb, _ = tr.inverse(yo)
                    if not (lo[0] <= xb[0, 0] < hi[0]):
                        bad.append(f"periodic column not wrapped into the interval: {xb[0,0]}")
                    kk = (xb[0, 0] - xo[0, 0]) / (hi[0] - lo[0])
                    if abs(kk - round(kk)) > 1e-6:
                        bad.append("periodic column not congruent modulo the period")
    return (len(bad) > 0, "; ".join(bad[:3]) if bad else "all C04 clauses hold on this input")


def _check_map(tr, x, bad, close, margin=False, lo=None, hi=None):
    x0 = np.array(x, copy=True)
    y, lj = tr.forward(x)
    if not np.array_equal(x0, x, equal_nan=True):
        bad.append("forward() modified the array it was given")
        x = x0.copy()
    if not margin:
        y0 = np.array(y, copy=True)
        tr.inverse(y)
        if not np.array_equal(y0, y, equal_nan=True):
            bad.append("inverse() modified the array it was given")
            y = y0.copy()
    if margin:
        xc = np.clip(x, lo + EPS * (hi - lo), lo + (1.0 - EPS) * (hi - lo))
        close(y, tr.forward(xc)[0], "forward inside the margin vs forward at the clipped point")
        return
    xr, lji = tr.inverse(y)
    close(xr, x, "inverse(forward(x))")
    close(lji, -lj, "inverse log-Jacobian vs -forward")
    if lj.shape != (x.shape[0],):
        bad.append(f"log-Jacobian shape {lj.shape}")
        return
    for i in range(x.shape[0]):
        fds = [_fd_logdet(tr.forward, x[i : i + 1].copy(), side=sd) for sd in (0, 1, -1)]
        if not any(math.isfinite(fd) and abs(fd - float(lj[i])) <= 1e-3 * max(1.0, abs(fd)) for fd in fds):
            bad.append(f"forward log-Jacobian row {i}: got {float(lj[i])!r}, finite differences {fds[0]!r}")


if __name__ == "__main__":
    raise SystemExit(main(C04()))
