"""C16 -- slicing, concatenating, pickling and dict-converting samples keep
rows aligned.

Real code executed symbolically: BaseSamples / Samples / SMCSamples
__post_init__, __getitem__ (three classes), concatenate, to_dict / from_dict
(flat and nested), __getstate__ / __setstate__ through the real pickle,
Samples.compute_weights (because selection re-constructs the object).
Every cell is a distinct symbolic variable; selections are slices with
concrete bounds, an integer position, a Boolean mask with symbolic entries
(forked) and an integer index array with symbolic entries (one ite-select path
for all index vectors).  The oracle is the same selection applied to plain
per-field lists kept by the harness."""

from __future__ import annotations

import pickle

import numpy as np

from harness.common import Check, main, sx, core, z3
from harness.util import env_array

FIELDS = ("log_likelihood", "log_prior", "log_q")


def _sel_row(idx_term, rows):
    acc = rows[-1]
    for j in range(len(rows) - 2, -1, -1):
        acc = [z3.If(idx_term == j, a, b) for a, b in zip(rows[j], acc)]
    return acc


class Ref:
    """Plain-array reference model: one list of rows per per-sample field."""

    def __init__(self, x, fields, extra=None):
        self.x = [sx.terms(x[i]) for i in range(x.shape[0])]
        self.f = {k: (sx.terms(v) if v is not None else None) for k, v in fields.items()}
        self.extra = dict(extra or {})  # log_w, weights for Samples

    def select(self, pick):
        r = Ref.__new__(Ref)
        r.evidence = getattr(self, "evidence", None)
        r.x = pick(self.x)
        r.f = {k: (pick([[t] for t in v]) if v is not None else None) for k, v in self.f.items()}
        r.f = {k: ([row[0] for row in v] if v is not None else None) for k, v in r.f.items()}
        r.extra = {k: [row[0] for row in pick([[t] for t in v])] for k, v in self.extra.items()}
        return r


class C16(Check):
    pid = "C16"
    required_labels = ["select/x", "select/fields", "select/weights", "concat/x", "pickle/x", "dict/x", "evidence_carried"]
    stubs = ["every cell of every field is a distinct symbolic variable; masks and index arrays have symbolic entries"]
    outside = ["torch / jax namespaces (C15)", "HDF5 save/load (C13)", "empty selections (a weighted set with zero rows raises in NumPy as well)"]
    bounds = {"quick": {"N": 3, "d": 2, "sequence_length": 2}, "thorough": {"N": 4, "d": 2, "sequence_length": 3}}

    SEQS_QUICK = [
        [("slice", 1, 3)],
        [("slice", 0, 2), ("slice", 1, 2)],
        [("int", 1)],
        [("mask",)],
        [("masklist", 5)],
        [("take", 2)],
        [("take", 4)],
        [("split_concat", 1)],
        [("pickle",)],
        [("dict_flat",)],
        [("dict_nested",)],
        [("mask",), ("pickle",)],
        [("slice", 1, 3), ("dict_flat",)],
        [("take", 3), ("pickle",)],
    ]
    SEQS_THOROUGH = SEQS_QUICK + [
        [("mask",), ("slice", 0, 1)],
        [("slice", 0, 3), ("mask",), ("dict_nested",)],
        [("split_concat", 2), ("take", 3)],
        [("pickle",), ("dict_flat",), ("slice", 1, 4)],
        [("take", 3), ("split_concat", 1), ("pickle",)],
        [("slice", 2, 4), ("split_concat", 1)],
    ]

    def configs(self, tier):
        out = []
        N = 3 if tier == "quick" else 4
        seqs = self.SEQS_QUICK if tier == "quick" else self.SEQS_THOROUGH
        for cls, subsets in (("BaseSamples", ["all", "ll", "none"]), ("Samples", ["all", "none"]), ("SMCSamples", ["all"])):
            for sub in subsets:
                for k, seq in enumerate(seqs):
                    if sub != "all" and tier == "quick" and k not in (0, 3, 4, 7, 8, 9):
                        continue
                    out.append({"name": f"{cls}-{sub}-seq{k}", "cls": cls, "subset": sub, "seq": [list(o) for o in seq], "N": N, "d": 2, "timeout_ms": 60000})
        # a model parameter that is named like a field of the class (a parameter called
        # "beta" in a tempered population): the nested dictionary layout keeps them apart
        for cls, names in (("SMCSamples", ["beta", "alpha"]), ("Samples", ["log_evidence", "alpha"]), ("BaseSamples", ["log_q", "alpha"])):
            for seq in ([("dict_nested",)], [("pickle",)], [("slice", 1, 3), ("dict_nested",)]):
                out.append({"name": f"{cls}-all-fieldname-{seq[-1][0]}{len(seq)}", "cls": cls, "subset": "all", "seq": [list(o) for o in seq], "N": N, "d": 2, "timeout_ms": 60000, "params": names})
        return out

    # ------------------------------------------------------------------
    def harness(self, cfg):
        import aspire.samples as S

        cls = getattr(S, cfg["cls"])
        N, d, sub = cfg["N"], cfg["d"], cfg["subset"]
        seq = [tuple(o) for o in cfg["seq"]]

        def h(ctx):
            x = sx.sym("x", (N, d))
            fields = {
                "log_likelihood": sx.sym("ll", N) if sub in ("all", "ll") else None,
                "log_prior": sx.sym("lp", N) if sub == "all" else None,
                "log_q": sx.sym("lq", N) if sub == "all" else None,
            }
            kw = dict(fields)
            if cfg["cls"] == "SMCSamples":
                kw["beta"] = 0.25
            params = list(cfg.get("params") or ["alpha", "bravo"])
            s = cls(x=x, parameters=list(params), xp=sx, dtype=sx.float32, **kw)
            extra = {}
            if cfg["cls"] == "Samples" and sub == "all":
                extra = {"log_w": sx.terms(s.log_w), "weights": sx.terms(s.weights)}
                s.log_evidence = sx.sym("carriedZ")  # a value that cannot be recomputed
                s.log_evidence_error = sx.sym("carriedE")
            if cfg["cls"] == "SMCSamples" or (cfg["cls"] == "Samples" and sub != "all"):
                # evidence attached to a set without weights (what
                # to_standard_samples() and the MCMC samplers return)
                s.log_evidence = sx.sym("carriedZ")
                s.log_evidence_error = sx.sym("carriedE")
            ref = Ref(x, fields, extra)
            ref.evidence = (z3.Real("carriedZ"), z3.Real("carriedE")) if cfg["cls"] in ("Samples", "SMCSamples") else None
            cur = s
            for step, op in enumerate(seq):
                cur, ref = self.apply(ctx, cls, cur, ref, op, step)
                if cur is None:
                    return
            self.compare(ctx, cfg, cur, ref, params, s, last=seq[-1][0])
            self.validate(ctx, cfg, cur, seq)

        return h

    def validate(self, ctx, cfg, out, seq):
        """Translator validation: the same sequence on the real class with NumPy
        under a model of the path condition, against the symbolic result."""
        import aspire.samples as S

        if out.x.ndim != 2:
            return
        cls = getattr(S, cfg["cls"])
        N, d, sub = cfg["N"], cfg["d"], cfg["subset"]
        sym = {"x": sx.terms(out.x)}
        for f in FIELDS:
            if getattr(out, f) is not None:
                sym[f] = sx.terms(getattr(out, f))

        def runner(env):
            x = np.asarray(env_array(env, "x", (N, d)))
            kw = {}
            if sub in ("all", "ll"):
                kw["log_likelihood"] = np.asarray(env_array(env, "ll", (N,)))
            if sub == "all":
                kw["log_prior"] = np.asarray(env_array(env, "lp", (N,)))
                kw["log_q"] = np.asarray(env_array(env, "lq", (N,)))
            if cfg["cls"] == "SMCSamples":
                kw["beta"] = 0.25
            cur = cls(x=x, parameters=list(cfg.get("params") or ["alpha", "bravo"]), **kw)
            for step, op in enumerate(seq):
                kind = op[0]
                n = len(cur.x)
                if kind == "slice":
                    cur = cur[op[1] : op[2]]
                elif kind == "int":
                    cur = cur[op[1]]
                elif kind == "mask":
                    cur = cur[np.array([bool(env.get(f"m{step}_{i}")) for i in range(n)])]
                elif kind == "masklist":
                    cur = cur[[bool((op[1] >> i) & 1) for i in range(n)]]
                elif kind == "take":
                    cur = cur[np.array([int(round(float(env.get(f"i{step}_{k}") or 0))) for k in range(op[1])])]
                elif kind == "split_concat":
                    cur = cls.concatenate([cur[: op[1]], cur[op[1] :]])
                elif kind == "pickle":
                    cur = pickle.loads(pickle.dumps(cur))
                else:
                    cur = cls.from_dict(cur.to_dict(flat=kind == "dict_flat"))
            return {k: np.asarray(getattr(cur, k), float) for k in sym}

        ctx.validate(sym, runner)

    def apply(self, ctx, cls, cur, ref, op, step):
        kind = op[0]
        n = len(ref.x)
        if kind == "slice":
            a, b = op[1], op[2]
            return cur[a:b], ref.select(lambda rows: rows[a:b])
        if kind == "int":
            i = op[1]
            out = cur[i]
            r = ref.select(lambda rows: [rows[i]])
            r.scalar = True
            return out, r
        if kind == "mask":
            m = sx.Array(np.array([z3.Bool(f"m{step}_{i}") for i in range(n)], dtype=object), sx.bool)
            # an empty selection of a weighted set raises ValueError in NumPy too
            # (max of a zero-size array); non-empty selections are the claim
            ctx.add_assume(z3.Or(*[z3.Bool(f"m{step}_{i}") for i in range(n)]))
            out = cur[m]
            keep = [ctx.branch(z3.Bool(f"m{step}_{i}")) for i in range(n)]
            return out, ref.select(lambda rows: [r for r, k in zip(rows, keep) if k])
        if kind == "masklist":
            # a plain python list of bools (e.g. mask.tolist()) is a mask too
            keep = [bool((op[1] >> i) & 1) for i in range(n)]
            return cur[keep], ref.select(lambda rows: [r for r, k in zip(rows, keep) if k])
        if kind == "take":
            M = op[1]
            cells = np.empty((M,), dtype=object)
            for k in range(M):
                v = z3.Real(f"i{step}_{k}")
                ctx.add_assume(z3.Or(*[v == j for j in range(n)]))
                cells[k] = v
            idx = sx.Array(cells, sx.int64)
            out = cur[idx]
            r = ref.select(lambda rows: [_sel_row(cells[k], rows) for k in range(M)])
            r.ite_rows = True  # weights are if-then-else terms: exp() of them stays opaque
            return out, r
        if kind == "split_concat":
            k = op[1]
            parts = [cur[:k], cur[k:]]
            out = cls.concatenate(parts)
            ref2 = ref.select(lambda rows: rows[:k] + rows[k:])
            ref2.extra = {}  # concatenate re-derives weights; checked through the fields
            ref2.evidence = None  # what a concatenation's evidence should be is not specified
            return out, ref2
        if kind == "pickle":
            return pickle.loads(pickle.dumps(cur)), ref
        if kind in ("dict_flat", "dict_nested"):
            dct = cur.to_dict(flat=kind == "dict_flat")
            try:
                out = cls.from_dict(dct)
            except core.HarnessError:
                raise
            except Exception as e:  # noqa: BLE001
                ctx.prove(False, "dict/roundtrip_raises", detail={"exception": repr(e)})
                return None, None
            r = ref
            r.extra = {}
            if getattr(r, "evidence", None) is not None:
                # "converting to a dictionary and back yields an equal sample set"
                z, e = out.log_evidence, out.log_evidence_error
                ok = z is not None and e is not None
                good = ok and ctx.prove(z3.And(sx.term(z) == r.evidence[0], sx.term(e) == r.evidence[1]), "dict/evidence_equal")
                if not ok:
                    ctx.prove(False, "dict/evidence_equal")
                if not good:
                    r.evidence = (sx.term(z), sx.term(e)) if ok else None  # go on from what the object now holds
            return out, r
        raise core.HarnessError(f"unknown op {op}")

    def compare(self, ctx, cfg, out, ref, params, orig, last):
        pre = {"slice": "select", "int": "select", "mask": "select", "masklist": "select", "take": "select", "split_concat": "concat", "pickle": "pickle", "dict_flat": "dict", "dict_nested": "dict"}[last]
        scalar = getattr(ref, "scalar", False)
        n = len(ref.x)
        xs = out.x
        if scalar:
            ctx.prove(xs.ndim == 1, pre + "/shape")
            got = [sx.terms(xs)]
        else:
            ctx.prove(xs.ndim == 2 and xs.shape[0] == n, pre + "/shape", detail={"shape": list(xs.shape), "n": n})
            if xs.ndim != 2 or xs.shape[0] != n:
                return
            got = [sx.terms(xs[i]) for i in range(n)]
        for i in range(n):
            ctx.prove(z3.And(*[a == b for a, b in zip(got[i], ref.x[i])]), pre + "/x", detail={"row": i})
        for f in FIELDS:
            want = ref.f[f]
            have = getattr(out, f)
            if want is None:
                ctx.prove(have is None, pre + "/fields", detail={"field": f, "expected": "absent"})
                continue
            ctx.prove(have is not None, pre + "/fields", detail={"field": f, "expected": "present"})
            if have is None:
                continue
            ht = sx.terms(have)
            ctx.prove(len(ht) == len(want), pre + "/fields", detail={"field": f})
            for i, (a, b) in enumerate(zip(ht, want)):
                ctx.prove(a == b, pre + "/fields", detail={"field": f, "row": i})
        for k, want in ref.extra.items():
            have = getattr(out, k, None)
            ctx.prove(have is not None, pre + "/weights", detail={"field": k})
            if have is None:
                continue
            ht = sx.terms(have)
            ctx.prove(len(ht) == len(want), pre + "/weights", detail={"field": k})
            for i, (a, b) in enumerate(zip(ht, want)):
                ctx.prove(a == b, pre + "/weights", detail={"field": k, "row": i})
        if cfg["cls"] == "Samples" and "log_w" in ref.extra and pre == "select" and not scalar and n >= 1 and not getattr(ref, "ite_rows", False):
            # the effective sample size attached to the selection is that of the selected weights
            W = [sx.term(sx.exp(sx.asarray(t))) for t in ref.extra["log_w"]]
            s1 = z3.Sum(W)
            s2 = z3.Sum([w * w for w in W])
            ctx.prove(sx.term(out.effective_sample_size) * s2 == s1 * s1, "select/ess_of_selection")
        ctx.prove(out.parameters == params, pre + "/parameters", detail={"parameters": out.parameters})
        ctx.prove(out.xp is sx, pre + "/namespace")
        ctx.prove(out.dtype == orig.dtype and out.x.dtype == orig.x.dtype, pre + "/dtype", detail={"dtype": repr(out.dtype)})
        if cfg["cls"] == "SMCSamples":
            ctx.prove(out.beta == orig.beta, pre + "/beta")
        if getattr(ref, "evidence", None) is not None and pre in ("select", "pickle"):
            z, e = out.log_evidence, out.log_evidence_error
            ok = z is not None and e is not None
            ctx.prove(ok, "evidence_carried")
            if ok:
                ctx.prove(z3.And(sx.term(z) == ref.evidence[0], sx.term(e) == ref.evidence[1]), "evidence_carried")

    # ------------------------------------------------------------------
    def to_cex(self, fl):
        env = {k: v for k, v in fl["env"].items() if k != "__purified__" and "!" not in k}
        return {"cfg": fl["cfg"], "label": fl["label"], "detail": fl.get("detail"), "env": env}

    def replay(self, cex):
        return replay_c16(cex)

    def finding_of(self, cex):
        lab = str(cex.get("label", ""))
        has_concat = any(op[0] == "split_concat" for op in cex["cfg"]["seq"])
        if cex["cfg"]["cls"] == "SMCSamples" and has_concat and (lab.endswith("/beta") or lab == "evidence_carried"):
            return "C16-D11"
        if cex["cfg"]["cls"] == "Samples" and lab == "dict/evidence_equal":
            return "C16-D12"
        return None

    def known_finding_probes(self):
        cfg = {"name": "D11-probe", "cls": "SMCSamples", "subset": "all", "seq": [["split_concat", 1]], "N": 3, "d": 2}
        cfg2 = {"name": "D12-probe", "cls": "Samples", "subset": "all", "seq": [["dict_flat"]], "N": 3, "d": 2}
        return [("C16-D11", {"cfg": cfg, "label": "concat/beta", "env": {}}), ("C16-D12", {"cfg": cfg2, "label": "dict/evidence_equal", "env": {}})]


def replay_c16(cex):
    """Same sequence on the real classes with NumPy, against plain-array
    reference selection."""
    import aspire.samples as S

    cfg = cex["cfg"]
    env = cex["env"]
    cls = getattr(S, cfg["cls"])
    N, d, sub = cfg["N"], cfg["d"], cfg["subset"]
    rs = np.random.default_rng(3)
    x = rs.normal(size=(N, d))
    f = {
        "log_likelihood": rs.normal(size=N) if sub in ("all", "ll") else None,
        "log_prior": rs.normal(size=N) if sub == "all" else None,
        "log_q": rs.normal(size=N) if sub == "all" else None,
    }
    kw = dict(f)
    if cfg["cls"] == "SMCSamples":
        kw["beta"] = 0.25
    params = list(cfg.get("params") or ["alpha", "bravo"])
    bad = []
    with np.errstate(all="ignore"):
        s = cls(x=x, parameters=list(params), dtype=np.float64, **kw)
        ref = {"x": x.copy(), **{k: (v.copy() if v is not None else None) for k, v in f.items()}}
        extra = {}
        if cfg["cls"] == "Samples" and sub == "all":
            extra = {"log_w": s.log_w.copy(), "weights": s.weights.copy()}
        if cfg["cls"] in ("Samples", "SMCSamples"):
            s.log_evidence, s.log_evidence_error = 123.5, 0.75
        cur = s
        carried = True
        for step, op in enumerate(cfg["seq"]):
            kind = op[0]
            n = len(ref["x"])
            try:
                if kind == "slice":
                    sel = slice(op[1], op[2])
                elif kind == "int":
                    sel = op[1]
                elif kind == "mask":
                    sel = np.array([bool(env.get(f"m{step}_{i}", i % 2 == 0)) for i in range(n)])
                elif kind == "take":
                    sel = np.array([int(round(float(env.get(f"i{step}_{k}", k % n) or 0))) % n for k in range(op[1])])
                elif kind == "masklist":
                    sel = np.array([bool((op[1] >> i) & 1) for i in range(n)])
                    cur = cur[sel.tolist()]
                    ref = {k: (v[sel] if v is not None else None) for k, v in ref.items()}
                    extra = {k: v[sel] for k, v in extra.items()}
                    continue
                if kind in ("slice", "int", "mask", "take"):
                    cur = cur[sel]
                    ref = {k: (v[sel] if v is not None else None) for k, v in ref.items()}
                    extra = {k: v[sel] for k, v in extra.items()}
                elif kind == "split_concat":
                    cur = cls.concatenate([cur[: op[1]], cur[op[1] :]])
                    extra = {}
                    carried = False
                elif kind == "pickle":
                    cur = pickle.loads(pickle.dumps(cur))
                else:
                    before = (cur.log_evidence, cur.log_evidence_error) if hasattr(cur, "log_evidence") else None
                    cur = cls.from_dict(cur.to_dict(flat=kind == "dict_flat"))
                    extra = {}
                    if carried and before is not None and cfg["cls"] in ("Samples", "SMCSamples"):
                        if cur.log_evidence is None or float(cur.log_evidence) != float(before[0]) or float(cur.log_evidence_error) != float(before[1]):
                            bad.append(f"dict round trip changed the attached evidence: {before[0]!r} -> {cur.log_evidence!r}")
                    carried = False
            except Exception as e:  # noqa: BLE001
                bad.append(f"operation {op} raised {type(e).__name__}: {e}")
                break
        if not bad:
            if not np.array_equal(np.asarray(cur.x), ref["x"]):
                bad.append("x rows differ from the reference selection")
            for k in FIELDS:
                have, want = getattr(cur, k), ref[k]
                if (have is None) != (want is None) or (want is not None and not np.array_equal(np.asarray(have), want)):
                    bad.append(f"{k} differs from the reference selection")
            if "log_w" in extra and len(extra["log_w"]) >= 1 and np.ndim(extra["log_w"]) == 1:
                from scipy.special import logsumexp as _lse

                lw = np.asarray(extra["log_w"], float)
                ess = float(np.exp(2 * _lse(lw) - _lse(2 * lw)))
                got = float(cur.effective_sample_size)
                if not abs(got - ess) <= 1e-9 * max(1.0, ess):
                    bad.append(f"effective_sample_size of the selection {got!r}, recomputed {ess!r}")
            for k, want in extra.items():
                have = getattr(cur, k, None)
                if have is None or not np.allclose(np.asarray(have), want, rtol=0, atol=0):
                    bad.append(f"{k} differs from the reference selection")
            if cur.parameters != params:
                bad.append("parameters lost")
            if cfg["cls"] == "SMCSamples" and cur.beta != 0.25:
                bad.append("beta lost")
            if carried and cfg["cls"] in ("Samples", "SMCSamples"):
                if cur.log_evidence != 123.5 or cur.log_evidence_error != 0.75:
                    bad.append(f"evidence not carried: {cur.log_evidence!r}")
    return (len(bad) > 0, "; ".join(bad[:3]) if bad else "all C16 clauses hold on this input")


if __name__ == "__main__":
    raise SystemExit(main(C16()))
