"""C02 -- weights, evidence and ESS are exact functionals of the log-densities.

Real code executed symbolically: Samples.__post_init__ -> compute_weights,
utils.logsumexp, Samples.scaled_weights, .efficiency,
utils.effective_sample_size, Samples.rejection_sample.
"""

from __future__ import annotations

import math

import numpy as np

from harness.common import Check, main, sx, core, z3
from harness.util import env_array, np_samples, ScriptedRng


class SymUniformRng:
    """Generator stub: uniform(size=n) returns fresh symbolic draws in (0,1)."""

    def __init__(self, ctx):
        self.ctx = ctx
        self.n = 0
        self.draws = []

    def uniform(self, low=0.0, high=1.0, size=None):
        self.n += 1
        u = sx.sym(f"u{self.n}", int(size))
        for t in sx.terms(u):
            self.ctx.add_assume(z3.And(t > 0, t < 1))
        self.draws.append(u)
        return u


class C02(Check):
    pid = "C02"
    required_labels = ["log_w", "log_evidence", "ess", "ess_range", "evidence_error", "rejection", "fp/log_evidence_finite", "fp/log_evidence_error_not_nan", "history/log_evidence", "history/shift_evidence", "selection/ess"]
    stubs = [
        "numpy.random.Generator.uniform -> fresh symbolic draws in (0,1)",
        "float constants bit-identical to math.log(k), k<=64, are read as ln k (exact)",
    ]
    outside = [
        "torch / jax namespaces and float32 rounding",
        "the -inf-entry clause and the accuracy-far-outside-exp-range clause are decided by the FP-sort obligations (labels fp_*), bounded to N=2",
    ]
    bounds = {
        "quick": {"N": [2, 3], "rejection_N": [2, 3]},
        "thorough": {"N": [2, 3, 4, 5], "rejection_N": [2, 3, 4]},
    }

    def configs(self, tier):
        out = []
        ns = [2, 3] if tier == "quick" else [2, 3, 4, 5]
        for n in ns:
            out.append({"name": f"weights-N{n}", "kind": "weights", "N": n})
        for n in ([2, 3] if tier == "quick" else [2, 3, 4]):
            out.append({"name": f"rejection-N{n}", "kind": "rejection", "N": n})
        for n in ([2, 3] if tier == "quick" else [2, 3, 4]):
            out.append({"name": f"hyper-N{n}", "kind": "hyper", "N": n})
        # histories on ONE object: inspect, change the log-densities, recompute; and a
        # constructor that is handed an evidence together with all three log-densities
        for n in ([2] if tier == "quick" else [2, 3]):
            for mode in ("reassign", "ctor_evidence", "deferred"):
                out.append({"name": f"history-{mode}-N{n}", "kind": "history", "mode": mode, "N": n})
        # the ESS / weights of a selection are those of the selected rows (index arrays of
        # every length, repeats included; every index vector is a path)
        for n, m in ([(2, 2), (3, 3)] if tier == "quick" else [(2, 2), (3, 3), (3, 2), (3, 4)]):
            out.append({"name": f"selection-N{n}-M{m}", "kind": "selection", "N": n, "M": m, "timeout_ms": 60000})
        for bits in (64, 32):
            for part in ("finite", "minus_inf"):
                out.append({"name": f"fp{bits}-stability-{part}-N2", "kind": "fp", "part": part, "N": 2, "bits": bits, "timeout_ms": 120000})
        if tier == "thorough":
            for part in ("finite", "minus_inf"):
                out.append({"name": f"fp64-stability-{part}-N3", "kind": "fp", "part": part, "N": 3, "bits": 64, "timeout_ms": 300000})
        return out

    def ctx_for(self, cfg, seed):
        if cfg["kind"] == "fp":
            return sx.Ctx(self.pid, seed=seed, timeout_ms=cfg.get("timeout_ms", 300000), sort="F", fp_bits=cfg["bits"])
        return sx.Ctx(self.pid, D=cfg.get("D", 1), seed=seed, timeout_ms=cfg.get("timeout_ms", 30000))

    # ------------------------------------------------------------------
    def harness(self, cfg):
        from aspire.samples import Samples
        from aspire.utils import effective_sample_size, logsumexp

        N = cfg["N"]
        kind = cfg["kind"]

        def build(tag=""):
            ll = sx.sym("ll" + tag, N)
            lp = sx.sym("lp" + tag, N)
            lq = sx.sym("lq" + tag, N)
            x = sx.sym("x" + tag, (N, 1))
            return x, ll, lp, lq

        def weights(ctx):
            x, ll, lp, lq = build()
            s = Samples(x=x, log_likelihood=ll, log_prior=lp, log_q=lq, xp=sx)
            w = [sx.term(ll[i] + lp[i] - lq[i]) for i in range(N)]
            W = [sx.term(sx.exp(sx.asarray(wi))) for wi in w]
            sW = sum(W[1:], W[0])
            sW2 = sum([a * a for a in W[1:]], W[0] * W[0])
            lw = sx.terms(s.log_w)
            for i in range(N):
                ctx.prove(lw[i] == w[i], "log_w")
            Z = sx.term(sx.exp(s.log_evidence))
            ctx.prove(Z * N == sW, "log_evidence")
            ctx.prove(sx.term(s.evidence) * N == sW, "evidence")
            wt = sx.terms(s.weights)
            for i in range(N):
                ctx.prove(wt[i] == W[i], "weights")
            ess = sx.term(s.effective_sample_size)
            ctx.prove(ess * sW2 == sW * sW, "ess")
            ctx.prove(z3.And(ess >= 1, ess <= N), "ess_range")
            ctx.prove(sx.term(s.efficiency) * N == ess, "efficiency")
            ess2 = sx.term(effective_sample_size(s.log_w))
            ctx.prove(ess2 * sW2 == sW * sW, "ess_helper")
            ee = sx.term(s.evidence_error)
            Zs = sW / N
            lee = sx.term(s.log_evidence_error)
            sq = z3.Sum([(a - Zs) * (a - Zs) for a in W])
            if core.is_uf_app(lee, "SQRT"):
                # staged (lemma chaining): the radicand is a polynomial identity,
                # it is non-negative, hence the root squares to it
                rad = lee.arg(0)
                ctx.prove(rad * (N * (N - 1)) * Zs * Zs == sq, "log_evidence_error/radicand")
                ctx.prove(rad >= 0, "log_evidence_error/radicand_nonneg")
                ctx.prove(z3.Implies(rad >= 0, z3.And(lee >= 0, lee * lee == rad)), "log_evidence_error/root")
                got = z3.And(lee >= 0, lee * lee == rad, rad * (N * (N - 1)) * Zs * Zs == sq)
                ctx.prove(z3.Implies(got, z3.And(lee >= 0, lee * lee * (N * (N - 1)) * Zs * Zs == sq)), "log_evidence_error")
                ctx.prove(ee == lee * Z, "evidence_error")
            else:
                ctx.prove(z3.And(lee >= 0, lee * lee * (N * (N - 1)) * Zs * Zs == sq), "log_evidence_error")
                ctx.prove(z3.And(ee >= 0, ee * ee * (N * (N - 1)) == sq), "evidence_error")
            sc = sx.terms(s.scaled_weights)
            for i in range(N):
                ctx.prove(z3.And(*[sc[i] * W[j] <= W[i] for j in range(N)], z3.Or(*[sc[i] * W[j] == W[i] for j in range(N)])), "scaled_weights")
            # logsumexp helper on its own
            lse = sx.term(sx.exp(logsumexp(s.log_w)))
            ctx.prove(lse == sW, "logsumexp")

            def runner(env):
                s2 = np_samples(env, N)
                return {
                    "log_w": s2.log_w,
                    "log_evidence": s2.log_evidence,
                    "ess": s2.effective_sample_size,
                    "log_evidence_error": s2.log_evidence_error,
                }

            ctx.validate(
                {
                    "log_w": lw,
                    "log_evidence": [sx.term(s.log_evidence)],
                    "ess": [ess],
                    "log_evidence_error": [lee],
                },
                runner,
            )

        def rejection(ctx):
            x, ll, lp, lq = build()
            s = Samples(x=x, log_likelihood=ll, log_prior=lp, log_q=lq, xp=sx)
            rng = SymUniformRng(ctx)
            out = s.rejection_sample(rng=rng)
            if len(rng.draws) != 1:
                ctx.prove(False, "rejection")
                return
            u = sx.terms(rng.draws[0])
            w = [sx.term(ll[i] + lp[i] - lq[i]) for i in range(N)]
            W = [sx.term(sx.exp(sx.asarray(wi))) for wi in w]
            M = ctx.fresh("Wmax")
            ctx.add_def(z3.And(*[M >= a for a in W], z3.Or(*[M == a for a in W])))
            # which rows were kept is decided by the path; recover it from x
            kept_rows = sx.terms(out.x)
            xs = sx.terms(x)
            # the decisions taken on the mask are the last N boolean decisions
            # of the path: re-derive the mask from row identity
            mask = _mask_from_rows(kept_rows, xs)
            if mask is None:
                ctx.prove(False, "rejection_rows")
                return
            for i in range(N):
                crit = u[i] * M < W[i]
                ctx.prove(crit if mask[i] else z3.Not(crit), "rejection")
            kept = [i for i in range(N) if mask[i]]
            oll = sx.terms(out.log_likelihood)
            olp = sx.terms(out.log_prior)
            ctx.prove(len(oll) == len(kept) and len(olp) == len(kept), "rejection_fields")
            for k, i in enumerate(kept):
                ctx.prove(z3.And(oll[k] == sx.term(ll[i]), olp[k] == sx.term(lp[i])), "rejection_fields")

        def hyper(ctx):
            # two-run hyper-properties in one query
            x, ll, lp, lq = build()
            s = Samples(x=x, log_likelihood=ll, log_prior=lp, log_q=lq, xp=sx)
            # (a) cyclic permutation of the rows
            perm = list(range(1, N)) + [0]
            p = sx.asarray(np.asarray(perm))
            s2 = Samples(x=x[p], log_likelihood=ll[p], log_prior=lp[p], log_q=lq[p], xp=sx)
            ctx.prove(sx.term(sx.exp(s2.log_evidence)) == sx.term(sx.exp(s.log_evidence)), "perm_evidence")
            ctx.prove(sx.term(s2.effective_sample_size) == sx.term(s.effective_sample_size), "perm_ess")
            e1, e2 = sx.term(s.log_evidence_error), sx.term(s2.log_evidence_error)
            if core.is_uf_app(e1, "SQRT") and core.is_uf_app(e2, "SQRT"):
                # equal radicands give equal roots (congruence); the radicand is
                # pinned to the specification in the `weights` configurations
                ctx.prove(e1.arg(0) == e2.arg(0), "perm_error")
            else:
                ctx.prove(e1 == e2, "perm_error")
            a, b = sx.terms(s2.log_w), sx.terms(s.log_w)
            for k, i in enumerate(perm):
                ctx.prove(a[k] == b[i], "perm_log_w")
            # (b) constant shift of every log-likelihood
            c = sx.sym("cshift")
            s3 = Samples(x=x, log_likelihood=ll + c, log_prior=lp, log_q=lq, xp=sx)
            ctx.prove(sx.term(s3.effective_sample_size) == sx.term(s.effective_sample_size), "shift_ess")
            ctx.prove(sx.term(s3.log_evidence) == sx.term(s.log_evidence) + sx.term(c), "shift_evidence")

        def fp(ctx):
            # the float clause: log-weights far outside the range of exp()
            S = sx.OPS.sort
            bound = 1e5
            ll = sx.sym("ll", N)
            zero = sx.zeros(N)
            x = sx.zeros((N, 1))
            for t in sx.terms(ll):
                ctx.add_assume(z3.And(z3.fpLEQ(t, z3.FPVal(bound, S)), z3.fpGEQ(t, z3.FPVal(-bound, S))))
            fin = lambda t: z3.Not(z3.Or(z3.fpIsNaN(t), z3.fpIsInf(t)))  # noqa: E731
            ctx.notes["fp_exact_timeout_ms"] = 20000
            if cfg.get("part") == "minus_inf":
                self._fp_minus_inf(ctx, N, x, zero, bound, S, fin)
                return
            s = Samples(x=x, log_likelihood=ll, log_prior=zero, log_q=zero, xp=sx)
            ctx.prove(fin(sx.term(s.log_evidence)), "fp/log_evidence_finite")
            ctx.prove(z3.Not(z3.fpIsNaN(sx.term(s.log_evidence_error))), "fp/log_evidence_error_not_nan")
            ctx.prove(z3.Not(z3.fpIsNaN(sx.term(s.effective_sample_size))), "fp/ess_not_nan")
            ctx.prove(fin(sx.term(s.effective_sample_size)), "fp/ess_finite")

        def _fp_minus_inf(ctx, N, x, zero, bound, S, fin):
            # -inf entries (zero-weight samples) next to at least one finite one
            ll2 = sx.sym("lm", N)
            t2 = sx.terms(ll2)
            minf = z3.fpMinusInfinity(S)
            ctx.add_assume(z3.And(z3.fpLEQ(t2[0], z3.FPVal(bound, S)), z3.fpGEQ(t2[0], z3.FPVal(-bound, S))))
            for t in t2[1:]:
                ctx.add_assume(z3.Or(t == minf, z3.And(z3.fpLEQ(t, z3.FPVal(bound, S)), z3.fpGEQ(t, z3.FPVal(-bound, S)))))
            s2 = Samples(x=x, log_likelihood=ll2, log_prior=zero, log_q=zero, xp=sx)
            ctx.prove(fin(sx.term(s2.log_evidence)), "fp/minus_inf_entries_log_evidence_finite")
            ctx.prove(z3.Not(z3.fpIsNaN(sx.term(s2.effective_sample_size))), "fp/minus_inf_entries_ess_not_nan")

        def spec(ctx, s, w, label, n=None):
            """The functional clauses of C02 on object `s` against log-weights `w`."""
            n = len(w)
            W = [sx.term(sx.exp(sx.asarray(wi))) for wi in w]
            sW = z3.Sum(W)
            sW2 = z3.Sum([a * a for a in W])
            lw = sx.terms(s.log_w)
            if not ctx.prove(len(lw) == n, label + "/log_w", detail={"len": len(lw)}):
                return
            for i in range(n):
                ctx.prove(lw[i] == w[i], label + "/log_w", detail={"row": i})
            wt = sx.terms(s.weights)
            for i in range(n):
                ctx.prove(wt[i] == W[i], label + "/weights", detail={"row": i})
            ess = sx.term(s.effective_sample_size)
            ctx.prove(ess * sW2 == sW * sW, label + "/ess")
            ctx.prove(sx.term(s.efficiency) * n == ess, label + "/efficiency")
            return W, sW

        def history(ctx):
            x, ll, lp, lq = build()
            mode = cfg["mode"]
            c = sx.sym("cshift")
            if mode == "reassign":
                s = Samples(x=x, log_likelihood=ll, log_prior=lp, log_q=lq, xp=sx)
                z0 = sx.term(s.log_evidence)
                _ = s.effective_sample_size
                s.log_likelihood = s.log_likelihood + c
                s.compute_weights()
                w = [sx.term(ll[i] + c + lp[i] - lq[i]) for i in range(N)]
                ctx.prove(sx.term(s.log_evidence) == z0 + sx.term(c), "history/shift_evidence")
            elif mode == "ctor_evidence":
                s = Samples(x=x, log_likelihood=ll, log_prior=lp, log_q=lq, xp=sx, log_evidence=sx.sym("givenZ"), log_evidence_error=sx.sym("givenE"))
                w = [sx.term(ll[i] + lp[i] - lq[i]) for i in range(N)]
            else:  # what ImportanceSampler / convert_to_samples do: fill in, then compute
                s = Samples(x=x, log_q=lq, xp=sx)
                s.log_prior = lp
                s.log_likelihood = ll
                s.compute_weights()
                w = [sx.term(ll[i] + lp[i] - lq[i]) for i in range(N)]
            r = spec(ctx, s, w, "history")
            if r is None:
                return
            W, sW = r
            ctx.prove(sx.term(sx.exp(s.log_evidence)) * N == sW, "history/log_evidence")
            lee = sx.term(s.log_evidence_error)
            Zs = sW / N
            sq = z3.Sum([(a - Zs) * (a - Zs) for a in W])
            if core.is_uf_app(lee, "SQRT"):
                ctx.prove(lee.arg(0) * (N * (N - 1)) * Zs * Zs == sq, "history/log_evidence_error")
            else:
                ctx.prove(z3.And(lee >= 0, lee * lee * (N * (N - 1)) * Zs * Zs == sq), "history/log_evidence_error")

        def selection(ctx):
            x, ll, lp, lq = build()
            M = cfg["M"]
            s = Samples(x=x, log_likelihood=ll, log_prior=lp, log_q=lq, xp=sx)
            _ = s.effective_sample_size
            idx = [int(sx.sym_int(f"i{k}", range(N))) for k in range(M)]
            out = s[np.asarray(idx)]
            w = [sx.term(ll[i] + lp[i] - lq[i]) for i in idx]
            spec(ctx, out, w, "selection")
            ctx.notes["selection_idx"] = idx

        self._fp_minus_inf = _fp_minus_inf
        return {"weights": weights, "rejection": rejection, "hyper": hyper, "fp": fp, "history": history, "selection": selection}[kind]

    # ------------------------------------------------------------------
    def to_cex(self, fl):
        N = fl["cfg"]["N"]
        env = fl["env"]
        cex = {
            "kind": fl["cfg"]["kind"],
            "N": N,
            "label": fl["label"],
            "ll": env_array(env, "ll", (N,)),
            "lp": env_array(env, "lp", (N,)),
            "lq": env_array(env, "lq", (N,)),
        }
        if fl["cfg"]["kind"] == "fp":
            cex["bits"] = fl["cfg"]["bits"]
            cex["lm"] = env_array(env, "lm", (N,))
            raw = fl["env"]
            cex["ll"] = [raw.get(f"ll_{i}") for i in range(N)]
            cex["lm"] = [raw.get(f"lm_{i}") for i in range(N)]
        if fl["cfg"]["kind"] == "rejection":
            cex["u"] = env_array(env, "u1", (N,), default=0.5)
        if fl["cfg"]["kind"] in ("hyper", "history"):
            cex["c"] = env.get("cshift") or 1.5
        if fl["cfg"]["kind"] == "history":
            cex["mode"] = fl["cfg"]["mode"]
        if fl["cfg"]["kind"] == "selection":
            M = fl["cfg"]["M"]
            cex["idx"] = [int(round(float(env.get(f"i{k}") or 0))) for k in range(M)]
        return cex

    def replay(self, cex):
        return replay_c02(cex)

    def finding_of(self, cex):
        return None


def _mask_from_rows(kept_rows, xs):
    ids = [t.get_id() for t in xs]
    mask = [False] * len(xs)
    pos = 0
    for r in kept_rows:
        i = r.get_id()
        while pos < len(ids) and ids[pos] != i:
            pos += 1
        if pos >= len(ids):
            return None
        mask[pos] = True
        pos += 1
    return mask


def replay_c02(cex):
    """Independent float oracle on the real Samples class with NumPy."""
    from scipy.special import logsumexp as sp_lse

    from aspire.samples import Samples
    from aspire.utils import effective_sample_size

    if cex.get("kind") == "fp":
        return replay_fp(cex)
    ll = np.asarray(cex["ll"], float)
    lp = np.asarray(cex["lp"], float)
    lq = np.asarray(cex["lq"], float)
    N = len(ll)
    x = np.arange(N, dtype=float).reshape(N, 1)
    bad = []
    tol = 1e-6

    def close(a, b, what):
        a, b = float(a), float(b)
        if not (math.isfinite(a) and math.isfinite(b)) or abs(a - b) > tol * max(1.0, abs(a), abs(b)):
            bad.append(f"{what}: got {a!r}, expected {b!r}")

    if cex.get("kind") in ("history", "selection"):
        with np.errstate(all="ignore"):
            if cex["kind"] == "selection":
                idx = np.asarray(cex["idx"], int) % N
                parent = Samples(x=x, log_likelihood=ll, log_prior=lp, log_q=lq)
                _ = parent.effective_sample_size
                s = parent[idx]
                w = (ll + lp - lq)[idx]
                what = f"selection {idx.tolist()}"
            elif cex["mode"] == "reassign":
                c = float(cex.get("c", 1.5))
                s = Samples(x=x, log_likelihood=ll, log_prior=lp, log_q=lq)
                z0 = float(s.log_evidence)
                s.log_likelihood = s.log_likelihood + c
                s.compute_weights()
                w = ll + c + lp - lq
                what = "after changing log_likelihood and compute_weights()"
                close(s.log_evidence, z0 + c, f"log_evidence {what} (shift by c={c})")
            elif cex["mode"] == "ctor_evidence":
                s = Samples(x=x, log_likelihood=ll, log_prior=lp, log_q=lq, log_evidence=3.25, log_evidence_error=0.5)
                w = ll + lp - lq
                what = "constructed with an evidence and all three log-densities"
            else:
                s = Samples(x=x, log_q=lq)
                s.log_prior = lp
                s.log_likelihood = ll
                s.compute_weights()
                w = ll + lp - lq
                what = "filled in after construction, then compute_weights()"
            n = len(w)
            if len(s.log_w) != n:
                return True, f"{what}: log_w has {len(s.log_w)} entries for {n} rows"
            for i in range(n):
                close(s.log_w[i], w[i], f"{what}: log_w[{i}]")
            ess = math.exp(2 * sp_lse(w) - sp_lse(2 * w))
            close(s.effective_sample_size, ess, f"{what}: effective_sample_size")
            close(s.efficiency, ess / n, f"{what}: efficiency")
            if cex["kind"] == "history":
                close(s.log_evidence, sp_lse(w) - math.log(n), f"{what}: log_evidence")
                r = np.exp(w - (sp_lse(w) - math.log(n)))
                close(s.log_evidence_error, math.sqrt(float(np.sum((r - 1.0) ** 2)) / (n * (n - 1))), f"{what}: log_evidence_error")
        return (len(bad) > 0, "; ".join(bad[:4]) if bad else "all C02 clauses hold on this input")
    with np.errstate(all="ignore"):
        s = Samples(x=x, log_likelihood=ll, log_prior=lp, log_q=lq)
        w = ll + lp - lq
        for i in range(N):
            close(s.log_w[i], w[i], f"log_w[{i}]")
        close(s.log_evidence, sp_lse(w) - math.log(N), "log_evidence")
        ess = math.exp(2 * sp_lse(w) - sp_lse(2 * w))
        close(s.effective_sample_size, ess, "effective_sample_size")
        close(effective_sample_size(s.log_w), ess, "utils.effective_sample_size")
        close(s.efficiency, ess / N, "efficiency")
        if not (1 - 1e-9 <= float(s.effective_sample_size) <= N + 1e-9):
            bad.append("ESS outside [1, N]")
        sc = np.exp(w - w.max())
        for i in range(N):
            close(s.scaled_weights[i], sc[i], f"scaled_weights[{i}]")
        # relative error of the evidence, computed stably
        r = np.exp(w - (sp_lse(w) - math.log(N)))
        rel = math.sqrt(float(np.sum((r - 1.0) ** 2)) / (N * (N - 1)))
        close(s.log_evidence_error, rel, "log_evidence_error")
        if cex.get("kind") == "rejection":
            u = np.asarray(cex["u"], float)

            class R:
                def uniform(self, low=0.0, high=1.0, size=None):
                    return u.copy()

            out = s.rejection_sample(rng=R())
            keep = u < np.exp(w - w.max())
            if len(out.x) != int(keep.sum()) or not np.array_equal(out.x, x[keep]):
                bad.append(f"rejection kept rows {out.x.ravel().tolist()} expected {x[keep].ravel().tolist()}")
            elif not (np.array_equal(out.log_likelihood, ll[keep]) and np.array_equal(out.log_prior, lp[keep])):
                bad.append("rejection: fields of kept rows misaligned")
        if cex.get("kind") == "hyper":
            perm = list(range(1, N)) + [0]
            s2 = Samples(x=x[perm], log_likelihood=ll[perm], log_prior=lp[perm], log_q=lq[perm])
            close(s2.log_evidence, s.log_evidence, "permuted log_evidence")
            close(s2.effective_sample_size, s.effective_sample_size, "permuted ESS")
            c = float(cex.get("c", 1.5))
            s3 = Samples(x=x, log_likelihood=ll + c, log_prior=lp, log_q=lq)
            close(s3.log_evidence, float(s.log_evidence) + c, "shifted log_evidence")
            close(s3.effective_sample_size, s.effective_sample_size, "shifted ESS")
    return (len(bad) > 0, "; ".join(bad[:4]) if bad else "all C02 clauses hold on this input")


def replay_fp(cex):
    from aspire.samples import Samples

    dt = np.float64 if cex.get("bits", 64) == 64 else np.float32
    bad = []

    def val(v):
        if v is None:
            return 0.0
        return float(v)

    N = cex["N"]
    with np.errstate(all="ignore"):
        for key, what in (("ll", "finite log-weights"), ("lm", "log-weights with -inf entries")):
            w = np.array([val(v) for v in cex[key]], dtype=dt)
            if np.isnan(w).any() or np.all(np.isinf(w)):
                continue
            s = Samples(x=np.zeros((N, 1), dtype=dt), log_likelihood=w, log_prior=np.zeros(N, dtype=dt), log_q=np.zeros(N, dtype=dt), dtype=dt)
            if not np.isfinite(s.log_evidence):
                bad.append(f"{what} {w.tolist()}: log_evidence = {s.log_evidence}")
            if np.isnan(s.effective_sample_size) or (key == "ll" and not np.isfinite(s.effective_sample_size)):
                bad.append(f"{what} {w.tolist()}: effective_sample_size = {s.effective_sample_size}")
            if key == "ll" and np.isnan(s.log_evidence_error):
                bad.append(f"{what} {w.tolist()}: log_evidence_error = {s.log_evidence_error}")
    return (len(bad) > 0, "; ".join(bad[:3]) if bad else "finite on this input")


if __name__ == "__main__":
    raise SystemExit(main(C02()))
