"""C15 (partial) -- precision and namespace conversion plumbing.

Two families of configurations.

1. Loop configurations (the SMC loop harness): the symbolic namespace tags every
   array with a dtype that follows the Array-API promotion rules (float32 op
   float64 -> float64, asarray(dtype=...) casts), so the real sampler code is run
   with `dtype="float32"` (or the namespace's dtype object) and every population
   it records, checkpoints, restores from a checkpoint and returns must carry
   that width on every feasible path -- while the proposal, the user's functions
   and the kernel keep handing back float64 arrays, as real ones do.

2. API configurations: the namespace-generic conversion code of the sample
   classes (from_samples with and without overrides, across classes;
   to_namespace with and without a dtype; to_standard_samples), run with the
   symbolic namespace as source AND target.  Every cell is a distinct symbolic
   variable: the converted set must hold the same value in every cell of every
   field, keep every optional field (evidence, temperature) and carry the
   requested / inherited float width.

Outside the claim (not decidable by this technique, see DESIGN 6/C15): what
NumPy, PyTorch and JAX themselves do when an array crosses from one to the other
(DLPack, device moves, dtype objects of the three libraries) for every ordered
pair, the output-namespace option of the sampling call, and consuming proposal
outputs in another namespace."""

from __future__ import annotations

import numpy as np

from harness.common import core, main, sx, z3
from harness.loop_base import LoopCheck

API_OPS = [
    "from_samples",
    "from_samples_f64",
    "from_samples_cross",
    "to_namespace",
    "to_namespace_f64",
    "to_standard",
    "getitem_then_convert",
]
FIELDS = ("log_likelihood", "log_prior", "log_q")


def _apply_api(S, cls_name, s, op, xp, f32, f64):
    """The same operation for the symbolic and the concrete (replay) side.
    Returns (result, expected dtype, expected class name, expects_beta, expects_evidence)."""
    cls = getattr(S, cls_name)
    if op == "from_samples":
        return cls.from_samples(s), f32, cls_name
    if op == "from_samples_f64":
        return cls.from_samples(s, dtype="float64"), f64, cls_name
    if op == "from_samples_cross":
        if cls_name == "SMCSamples":
            return S.Samples.from_samples(s, xp=xp, dtype=f32), f32, "Samples"
        return S.SMCSamples.from_samples(s, xp=xp, beta=0.0, dtype=f32), f32, "SMCSamples"
    if op == "to_namespace":
        return s.to_namespace(xp), f32, cls_name
    if op == "to_namespace_f64":
        return s.to_namespace(xp, dtype="float64"), f64, cls_name
    if op == "to_standard":
        return s.to_standard_samples(), f32, "Samples"
    if op == "getitem_then_convert":
        return s[1:].to_namespace(xp), f32, cls_name
    raise core.HarnessError(f"unknown op {op}")


def _api_applicable(cls_name, op):
    if op == "to_standard":
        return cls_name == "SMCSamples"
    if op == "to_namespace_f64":
        return cls_name != "Samples"  # Samples.to_namespace has no dtype parameter
    return True


class C15(LoopCheck):
    pid = "C15"
    props = {"C15"}
    flows = ("plain", "resume")
    thorough_schedules = ["fixed1", "fixed2", "adaptive_half"]
    adaptive_N3 = ()
    required_labels = ["c15/history", "c15/final", "c15/checkpoint", "c15/history@resumed", "c15/final@resumed", "c15/history@aspire", "c15/final@resume_constructor", "c15/api/dtype", "c15/api/values", "c15/api/optional_fields", "c15/initial_population"]
    outside = LoopCheck.outside + [
        "what NumPy, PyTorch and JAX do when an array crosses from one to the other (every ordered pair), the output-namespace option, proposal outputs consumed in another namespace: the symbolic namespace is both source and target of every conversion here",
    ]
    bounds = {
        "quick": {"N": 2, "d": 1, "T": 2, "schedules": ["fixed2", "adaptive_half"], "api": {"N": 3, "d": 2}},
        "thorough": {"N": 2, "d": 1, "T": 3, "schedules": ["fixed1", "fixed2", "adaptive_half"], "api": {"N": 3, "d": 2}},
    }

    def configs(self, tier):
        out = []
        for c in LoopCheck.configs(self, tier):
            if tier == "quick" and (c["schedule"] == "fixed1" or (c["flow"] == "resume" and c["schedule"] != "fixed2")):
                continue
            for dt in ("float32", "obj32") if (tier != "quick" or (c["schedule"] == "fixed2" and c["flow"] == "plain" and not c["n_final"])) else ("float32",):
                c2 = dict(c)
                c2["dtype"] = dt
                c2["name"] = c["name"] + "-" + dt
                if c["flow"] == "resume":
                    c2["routes"] = ["bytes", "live_dict"]
                out.append(c2)
        # the top-level route: Aspire(dtype=...) -> sampler; the configuration written to the
        # file carries the precision, and the instance rebuilt by resume_from_file works in it
        out.append({"name": "aspire_file-fixed2-float32", "flow": "resume_file", "schedule": "fixed2", "n_final": False, "sampler": "MiniPCNSMC",
                    "N": 2, "d": 1, "T": 2, "D": 4, "timeout_ms": 120000, "dtype": "float32"})
        # FP sort: the prior may be -inf per point, so the initial draw needs several proposal
        # batches (rejection, concatenation, trimming) -- in the requested precision throughout
        out.append({"name": "initial-fp-float32", "kind": "initial_fp", "flow": "initial_fp", "N": 2, "d": 1, "rounds": 3, "dtype": "float32", "check_c15": True, "timeout_ms": 120000})
        for cls in ("BaseSamples", "Samples", "SMCSamples"):
            for sub in ("all", "none"):
                for op in API_OPS:
                    if _api_applicable(cls, op):
                        out.append({"name": f"api-{cls}-{sub}-{op}", "kind": "api", "flow": "api", "cls": cls, "subset": sub, "op": op, "N": 3, "d": 2, "timeout_ms": 30000})
        return out

    def ctx_for(self, cfg, seed):
        if cfg.get("kind") == "api":
            return sx.Ctx(self.pid, seed=seed, timeout_ms=cfg.get("timeout_ms", 30000))
        if cfg.get("kind") == "initial_fp":
            return sx.Ctx(self.pid, seed=seed, timeout_ms=cfg.get("timeout_ms", 120000), sort="F", fp_bits=64)
        return super().ctx_for(cfg, seed)

    def harness(self, cfg):
        if cfg.get("kind") == "api":
            return self.h_api(cfg)
        if cfg.get("kind") == "initial_fp":
            from harness.c10 import C10

            return C10().h_initial(cfg)
        return super().harness(cfg)

    # ------------------------------------------------------------------
    def h_api(self, cfg):
        import aspire.samples as S

        N, d, sub, op, cls_name = cfg["N"], cfg["d"], cfg["subset"], cfg["op"], cfg["cls"]

        def h(ctx):
            x = sx.sym("x", (N, d))
            kw = {f: (sx.sym(n, N) if sub == "all" else None) for f, n in zip(FIELDS, ("ll", "lp", "lq"))}
            if cls_name == "SMCSamples":
                kw["beta"] = 0.25
            s = getattr(S, cls_name)(x=x, parameters=["alpha", "bravo"], xp=sx, dtype="float32", **kw)
            ev = None
            if cls_name == "Samples" and sub == "all":
                # a weighted set: the evidence it computed itself (a conversion may
                # recompute it from the same weights); a selection carries its parent's
                ev = (sx.term(s.log_evidence), sx.term(s.log_evidence_error))
            elif cls_name in ("Samples", "SMCSamples"):
                s.log_evidence = sx.sym("carriedZ")
                s.log_evidence_error = sx.sym("carriedE")
                ev = (z3.Real("carriedZ"), z3.Real("carriedE"))
            if not op.startswith("to_namespace") and op != "getitem_then_convert":
                ev = None  # from_samples / to_standard_samples: copy constructors, see below
            try:
                out, want_dt, want_cls = _apply_api(S, cls_name, s, op, sx, sx.float32, sx.float64)
            except core.HarnessError:
                raise
            except Exception as e:  # noqa: BLE001
                ctx.prove(False, "c15/api/raises", detail={"exception": repr(e)})
                return
            rows = slice(1, None) if op == "getitem_then_convert" else slice(None)
            ctx.prove(type(out).__name__ == want_cls, "c15/api/class", detail={"class": type(out).__name__})
            got = {"dtype": repr(out.dtype), "x": repr(out.x.dtype)}
            ok = out.dtype == want_dt and out.x.dtype == want_dt
            for f in FIELDS:
                a = getattr(out, f)
                if a is not None:
                    got[f] = repr(a.dtype)
                    ok = ok and a.dtype == want_dt
            ctx.prove(bool(ok), "c15/api/dtype", detail={"requested": repr(want_dt), "found": got})
            ctx.prove(out.xp is sx, "c15/api/namespace")
            ctx.prove(out.parameters == ["alpha", "bravo"], "c15/api/parameters", detail={"parameters": out.parameters})
            # values: every cell of every field
            want_x = sx.terms(x[rows])
            have_x = sx.terms(out.x)
            if ctx.prove(len(have_x) == len(want_x), "c15/api/values", detail={"field": "x", "shape": list(out.x.shape)}):
                ctx.prove(z3.And(*[a == b for a, b in zip(have_x, want_x)]), "c15/api/values", detail={"field": "x"})
            for f in FIELDS:
                src = getattr(s, f)
                have = getattr(out, f)
                if f == "log_q" and want_cls == "Samples" and cls_name == "SMCSamples" and op == "to_standard":
                    continue  # standard samples of a finished SMC run carry no proposal density
                if src is None:
                    ctx.prove(have is None, "c15/api/optional_fields", detail={"field": f, "expected": "absent"})
                    continue
                if not ctx.prove(have is not None, "c15/api/optional_fields", detail={"field": f, "expected": "present"}):
                    continue
                a, b = sx.terms(have), sx.terms(src[rows])
                if ctx.prove(len(a) == len(b), "c15/api/values", detail={"field": f}):
                    ctx.prove(z3.And(*[p == q for p, q in zip(a, b)]), "c15/api/values", detail={"field": f})
            # optional fields that are not per-sample
            conversion = op.startswith("to_namespace") or op == "getitem_then_convert"
            if conversion and cls_name == "SMCSamples":
                ctx.prove(out.beta == s.beta, "c15/api/optional_fields", detail={"field": "beta", "found": repr(out.beta)})
            if ev is not None and want_cls in ("Samples", "SMCSamples"):
                z, e = out.log_evidence, out.log_evidence_error
                if ctx.prove(z is not None and e is not None, "c15/api/optional_fields", detail={"field": "log_evidence", "found": repr(z)}):
                    ctx.prove(z3.And(sx.term(sx.asarray(z)) == ev[0], sx.term(sx.asarray(e)) == ev[1]), "c15/api/optional_fields", detail={"field": "log_evidence value"})

        return h

    # ------------------------------------------------------------------
    def replay(self, cex):
        if cex["cfg"].get("kind") == "api":
            return replay_api(cex)
        if cex["cfg"].get("kind") == "initial_fp":
            from harness.c10 import replay_initial

            return replay_initial(cex)
        return super().replay(cex)

    def to_cex(self, fl):
        if fl["cfg"].get("kind") in ("api", "initial_fp"):
            env = {k: v for k, v in fl["env"].items() if k != "__purified__"}
            return {"cfg": fl["cfg"], "label": fl["label"], "detail": fl.get("detail"), "env": env}
        return super().to_cex(fl)

    def finding_of(self, cex):
        cfg = cex["cfg"]
        lab = str(cex.get("label", ""))
        if cfg.get("kind") == "api":
            return _api_finding(cfg, lab, cex.get("detail") or {})
        return None

    def known_finding_probes(self):
        out = []
        for fid, (cls, sub, op, lab, det) in API_FINDING_PROBES.items():
            cfg = {"name": f"{fid}-probe", "kind": "api", "flow": "api", "cls": cls, "subset": sub, "op": op, "N": 3, "d": 2}
            out.append((fid, {"cfg": cfg, "label": lab, "detail": det, "env": {}}))
        return out


# known findings of the API family: id -> (class, subset, op, label, detail)
API_FINDING_PROBES: dict = {
    "C15-F2": ("SMCSamples", "all", "to_namespace", "c15/api/optional_fields", {"field": "beta"}),
    "C15-F3": ("Samples", "all", "getitem_then_convert", "c15/api/optional_fields", {"field": "log_evidence value"}),
}


def _api_finding(cfg, label, detail):
    """The region of each open finding, as a predicate over (class, operation,
    refuted clause).  Anything else refuted is a new violation."""
    conversion = cfg["op"].startswith("to_namespace") or cfg["op"] == "getitem_then_convert"
    field = (detail or {}).get("field")
    if cfg["cls"] == "SMCSamples" and conversion and label == "c15/api/optional_fields" and field in ("beta", "log_evidence"):
        return "C15-F2"
    if cfg["cls"] == "Samples" and cfg["subset"] == "all" and cfg["op"] == "getitem_then_convert" and label == "c15/api/optional_fields" and field == "log_evidence value":
        return "C15-F3"
    return None


def replay_api(cex):
    """The same conversion on the real classes with NumPy as source and target."""
    import aspire.samples as S

    cfg = cex["cfg"]
    N, d, sub, op, cls_name = cfg["N"], cfg["d"], cfg["subset"], cfg["op"], cfg["cls"]
    rs = np.random.default_rng(5)
    x = rs.normal(size=(N, d))
    kw = {f: (rs.normal(size=N) if sub == "all" else None) for f in FIELDS}
    if cls_name == "SMCSamples":
        kw["beta"] = 0.25
    bad = []
    with np.errstate(all="ignore"):
        s = getattr(S, cls_name)(x=x, parameters=["alpha", "bravo"], dtype="float32", **kw)
        planted = cls_name in ("Samples", "SMCSamples") and not (cls_name == "Samples" and sub == "all")
        if planted:
            s.log_evidence, s.log_evidence_error = np.float32(12.5), np.float32(0.75)
        ev = (float(s.log_evidence), float(s.log_evidence_error)) if cls_name in ("Samples", "SMCSamples") else None
        try:
            out, want_dt, want_cls = _apply_api(S, cls_name, s, op, np, np.dtype("float32"), np.dtype("float64"))
        except Exception as e:  # noqa: BLE001
            return True, f"C15: {op} on {cls_name} raised {type(e).__name__}: {e}"
    rows = slice(1, None) if op == "getitem_then_convert" else slice(None)
    if type(out).__name__ != want_cls:
        bad.append(f"result is a {type(out).__name__}, expected {want_cls}")
    pr = {"dtype": np.dtype(out.dtype).name, "x": out.x.dtype.name}
    for f in FIELDS:
        if getattr(out, f) is not None:
            pr[f] = np.asarray(getattr(out, f)).dtype.name
    if any(v != np.dtype(want_dt).name for v in pr.values()):
        bad.append(f"{op} on a float32 {cls_name}: expected {np.dtype(want_dt).name}, found {pr}")
    if out.parameters != ["alpha", "bravo"]:
        bad.append("parameters lost")
    if out.x.shape != s.x[rows].shape or not np.array_equal(np.asarray(out.x, np.float32), np.asarray(s.x[rows], np.float32)):
        bad.append("x values changed")
    for f in FIELDS:
        src, have = getattr(s, f), getattr(out, f)
        if f == "log_q" and op == "to_standard":
            continue
        if (src is None) != (have is None):
            bad.append(f"optional field {f} {'appeared' if src is None else 'was dropped'}")
        elif src is not None and not np.array_equal(np.asarray(have, np.float32), np.asarray(src[rows], np.float32)):
            bad.append(f"{f} values changed")
    conversion = op.startswith("to_namespace") or op == "getitem_then_convert"
    if conversion and cls_name == "SMCSamples" and out.beta != s.beta:
        bad.append(f"temperature dropped: beta={out.beta!r}")
    if conversion and ev is not None:
        if out.log_evidence is None or out.log_evidence_error is None:
            bad.append(f"attached evidence dropped: {out.log_evidence!r}")
        elif abs(float(out.log_evidence) - ev[0]) > 1e-5 * max(1.0, abs(ev[0])) or abs(float(out.log_evidence_error) - ev[1]) > 1e-4 * max(1.0, abs(ev[1])):
            bad.append(f"attached evidence not preserved: {float(out.log_evidence)!r} instead of {ev[0]!r}")
    return (len(bad) > 0, "C15: " + "; ".join(bad[:3]) if bad else "all C15 clauses hold on this input")


if __name__ == "__main__":
    raise SystemExit(main(C15()))
