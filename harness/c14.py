"""C14 -- a checkpoint file stays self-consistent under any sequence of
operations (engine CH, program-encoded histories; ch/c14_file.py)."""

import argparse
import os
import sys

sys.path.insert(0, os.path.dirname(os.path.dirname(os.path.abspath(__file__))))
sys.path.insert(0, os.path.join(os.environ.get("ASPIRE_REPO", "/repo"), "src"))

from ch import run_crosshair as rc  # noqa: E402

CONDITIONS = (
    [{"fn": f"_run_f{k}", "expect": "confirm", "timeout": 240} for k in range(12)]
    + [{"fn": f"_run4_f{k}", "expect": "confirm", "timeout": 1800, "tiers": ("thorough",)} for k in range(12)]
    + [{"fn": "_twin", "expect": "refute", "timeout": 60}]
)

PROBES = [
    ("C14-D8a", "_raw", ([1, 6],)),
    ("C14-D8b", "_raw", ([4, 2],)),
    ("C14-D8c", "_raw", ([4, 3],)),
    ("C14-D8d", "_raw", ([1, 7, 5],)),
    ("C14-D8e", "_raw", ([4, 7, 9],)),
]


def main():
    ap = argparse.ArgumentParser()
    ap.add_argument("--tier", default=os.environ.get("VERIF_TIER", "quick"))
    ap.add_argument("--replay", default=None)
    a = ap.parse_args()
    if a.replay:
        ok = rc.replay_file(a.replay)
        if ok:
            print(f"VIOLATION property=C14 replay={a.replay}")
        return 1 if ok else 0
    tier = a.tier if a.tier in ("quick", "thorough") else "quick"
    return rc.main(
        "C14",
        "ch.c14_file",
        CONDITIONS,
        tier,
        explain={
            "text": "CrossHair symbolic execution of program-encoded operation histories (12 operation kinds) on one checkpoint file through the real Aspire.fit / sample_posterior / auto_checkpoint / resume_from_file / save_config / save_flow / load_flow over dict-backed fakes; the file invariant is asserted after every operation",
            "functions": [
                "aspire/aspire.py:Aspire.fit",
                "aspire/aspire.py:Aspire.sample_posterior",
                "aspire/aspire.py:Aspire.init_sampler",
                "aspire/aspire.py:Aspire.auto_checkpoint",
                "aspire/aspire.py:Aspire.resume_from_file",
                "aspire/aspire.py:Aspire._build_aspire_from_file",
                "aspire/aspire.py:Aspire.save_config",
                "aspire/aspire.py:Aspire.config_dict",
                "aspire/aspire.py:Aspire.save_flow",
                "aspire/aspire.py:Aspire.load_flow",
            ],
        },
        stubs=[
            "utils.AspireFile / recursively_save_to_h5_file / load_from_h5_file -> dict-backed fakes (existing group names cannot be created twice, as in h5py)",
            "flow -> FakeFlow: every fit gives a new identity tag, save writes the tag",
            "samplers -> FakeImportance (no checkpoint support, like the real one) and FakeSMC (writes a checkpoint tagged with its flow's identity; notes a resume under a different proposal); Aspire.get_sampler_class -> lookup of the fakes",
        ],
        outside=["histories longer than the bound", "HDF5 itself, real flows and samplers"],
        bounds={"program_length": 3 if tier == "quick" else 4, "operation_kinds": 12},
        known_probes=PROBES,
    )


if __name__ == "__main__":
    raise SystemExit(main())
