from harness.common import main
from harness.loop_base import LoopCheck


class C10(LoopCheck):
    pid = "C10"
    props = {"C10"}
    flows = ("plain", "resume")
    required_labels = []


if __name__ == "__main__":
    raise SystemExit(main(C10()))
