"""C10 -- cached per-particle log-densities always belong to the particle's
coordinates (loop harness, plus the initial-population harness in the FP
sort; DESIGN 6/C10)."""

from harness.common import core, main, sx, z3
from harness.loop_base import LoopCheck
from harness.stubs import FlowStub, Target, UserFns


class C10(LoopCheck):
    pid = "C10"
    props = {"C10"}
    flows = ("plain", "resume")
    adaptive_N3 = ()
    required_labels = ["c10/history", "c10/final", "c10/initial_fp/size", "c10/initial_fp/rows", "c10/initial_fp/finite_prior"]

    def configs(self, tier):
        out = super().configs(tier)
        for c in list(out):
            if c["flow"] == "plain" and c["schedule"] == ("fixed1" if tier == "quick" else "fixed2") and not c["n_final"] and c["sampler"] == "MiniPCNSMC":
                c2 = dict(c)
                c2["precond"] = "logit"
                c2["name"] = c["name"] + "-logit-precond"
                out.append(c2)
                # the other numpy kernel recomputes the densities itself after the move
                c3 = dict(c2)
                c3["sampler"] = "EmceeSMC"
                c3["name"] = c2["name"].replace("MiniPCNSMC", "EmceeSMC")
                if not any(o["name"] == c3["name"] for o in out):
                    out.append(c3)
        for n, d in ([(2, 1)] if tier == "quick" else [(2, 1), (2, 2), (3, 1)]):
            out.append({"name": f"initial-fp-n{n}-d{d}", "kind": "initial_fp", "N": n, "d": d, "rounds": 3, "flow": "initial_fp", "timeout_ms": 120000})
        return out

    def ctx_for(self, cfg, seed):
        if cfg.get("kind") == "initial_fp":
            return sx.Ctx(self.pid, seed=seed, timeout_ms=cfg.get("timeout_ms", 120000), sort="F", fp_bits=64)
        return super().ctx_for(cfg, seed)

    def harness(self, cfg):
        if cfg.get("kind") == "initial_fp":
            return self.h_initial(cfg)
        return super().harness(cfg)

    def h_initial(self, cfg):
        from aspire.samplers.mcmc import MCMCSampler

        n, d = cfg["N"], cfg["d"]

        def h(ctx):
            S = sx.OPS.sort
            fns = UserFns(d, sort=S)
            tgt = Target(ctx, d, fns, check_c17=bool(cfg.get("check_c17")))
            flow = FlowStub(ctx, d, fns)
            flow.max_draws = cfg["rounds"]
            smp = MCMCSampler(
                log_likelihood=tgt.log_likelihood,
                log_prior=tgt.log_prior,
                dims=d,
                prior_flow=flow,
                xp=sx,
                parameters=[f"p{k}" for k in range(d)],
                **({"dtype": cfg["dtype"]} if cfg.get("dtype") else {}),
            )
            ctx.notes["int_enum_max"] = n
            out = smp.draw_initial_samples(n)
            if cfg.get("check_c15"):
                # the requested precision survives rejection, concatenation and trimming
                from harness.loop_checks import check_precision

                check_precision(ctx, out, sx.float32 if cfg.get("dtype") == "float32" else sx.float64, "c15/initial_population", {"draw_rounds": flow.n_draws})
            fin = lambda t: z3.Not(z3.Or(z3.fpIsNaN(t), z3.fpIsInf(t)))  # noqa: E731
            # specification: the first n finite-prior rows in draw order
            rows = []
            for x in flow.draws:  # whatever sizes the code asked the proposal for
                for i in range(x.shape[0]):
                    r = sx.terms(x[i])
                    if ctx.branch(fin(fns.PI(*r))):
                        rows.append(r)
            ctx.prove(len(out.x) == n, "c10/initial_fp/size", detail={"len": len(out.x), "draw_rounds": flow.n_draws})
            if len(out.x) != n:
                return
            ctx.prove(len(rows) >= n, "c10/initial_fp/enough_valid")
            ll, lp, lq = sx.terms(out.log_likelihood), sx.terms(out.log_prior), sx.terms(out.log_q)
            for i in range(n):
                r = sx.terms(out.x[i])
                ctx.prove(z3.And(*[a == b for a, b in zip(r, rows[i])]), "c10/initial_fp/rows", detail={"row": i})
                ctx.prove(fin(lp[i]), "c10/initial_fp/finite_prior", detail={"row": i})
                ctx.prove(z3.And(lp[i] == fns.PI(*r), lq[i] == fns.Q(*r), ll[i] == fns.L(*r)), "c10/initial_fp/densities", detail={"row": i})
            ctx.prove(smp.n_likelihood_evaluations == n and tgt.n_points == n, "c10/initial_fp/likelihood_once", detail={"points": tgt.n_points})
            if cfg.get("check_c17"):
                ctx.prove(smp.n_likelihood_evaluations == tgt.n_points, "c17/count", detail={"reported": smp.n_likelihood_evaluations, "asked": tgt.n_points})

        return h

    def to_cex(self, fl):
        if fl["cfg"].get("kind") == "initial_fp":
            env = {k: v for k, v in fl["env"].items() if k != "__purified__"}
            return {"cfg": fl["cfg"], "label": fl["label"], "detail": fl.get("detail"), "env": env}
        return super().to_cex(fl)

    def replay(self, cex):
        if cex["cfg"].get("kind") == "initial_fp":
            return replay_initial(cex)
        return super().replay(cex)


def replay_initial(cex):
    """Real draw_initial_samples on NumPy: the prior is -inf on the rows the
    model marked non-finite; the oracle recomputes the expected selection."""
    import numpy as np

    from aspire.samplers.mcmc import MCMCSampler

    cfg = cex["cfg"]
    n, d = cfg["N"], cfg["d"]
    rs = np.random.default_rng(5)
    draws = [rs.normal(size=(n, d)) + 10 * k for k in range(1, 8)]
    # which rows are invalid: try every pattern over the first two rounds
    bad = []
    for pattern, nonfinite in [(pt, nf) for pt in range(2 ** (2 * n)) for nf in (-np.inf, np.inf, np.nan)]:
        invalid = {(k, i) for k in range(2) for i in range(n) if (pattern >> (k * n + i)) & 1}
        if not invalid and nonfinite != -np.inf:
            continue
        state = {"k": 0}
        lookup = {}

        def Lf(x):
            return -0.5 * np.sum(np.asarray(x) ** 2, axis=-1)

        def Pf(x):
            x = np.asarray(x)
            out = -np.sum(np.abs(x), axis=-1)
            for r, row in enumerate(x):
                if lookup.get(tuple(np.asarray(row, np.float32).tolist())) in invalid:
                    out[r] = nonfinite
            return out

        def Qf(x):
            return -0.25 * np.sum(np.asarray(x) ** 2, axis=-1) - 1.0

        class Flow:
            def sample_and_log_prob(self, m):
                k = state["k"]
                state["k"] += 1
                x = draws[k].copy()
                for i, row in enumerate(x):
                    lookup[tuple(np.asarray(row, np.float32).tolist())] = (k, i)
                return x, Qf(x)

        calls = {"n": 0}

        def Lw(s):
            calls["n"] += len(s.x)
            return Lf(s.x)

        smp = MCMCSampler(log_likelihood=Lw, log_prior=lambda s: Pf(s.x), dims=d, prior_flow=Flow(), xp=np, **({"dtype": cfg["dtype"]} if cfg.get("dtype") else {}))
        with np.errstate(all="ignore"):
            out = smp.draw_initial_samples(n)
        want = [draws[k][i] for k in range(state["k"]) for i in range(n) if (k, i) not in invalid][:n]
        msg = None
        if cfg.get("check_c15"):
            # only the precision clause is replayed for the C15 configuration
            from harness.loop_replay import precision_of

            pr = precision_of(out)
            wantp = "float32" if cfg.get("dtype") == "float32" else "float64"
            if any(v != wantp for v in pr.values()):
                bad.append(f"C15: initial population after {state['k']} draw rounds (rows {sorted(invalid)} outside the prior) is not in the requested precision {wantp}: {pr}")
                break
            continue
        if len(out.x) != n:
            msg = f"{len(out.x)} particles instead of {n}"
        elif not np.array_equal(np.asarray(out.x), np.asarray(want)):
            msg = "initial population is not the first n finite-prior draws"
        elif not np.all(np.isfinite(out.log_prior)):
            msg = "non-finite prior kept"
        elif not (np.array_equal(out.log_prior, Pf(out.x)) and np.array_equal(out.log_q, Qf(out.x)) and np.array_equal(out.log_likelihood, Lf(out.x))):
            msg = "cached densities do not belong to the rows"
        elif calls["n"] != n:
            msg = f"likelihood evaluated on {calls['n']} points instead of {n}"
        if msg:
            bad.append(f"rows {sorted(invalid)} with log-prior {nonfinite}: {msg}")
            break
    return (len(bad) > 0, "; ".join(bad) if bad else "all initial-population clauses hold")


if __name__ == "__main__":
    raise SystemExit(main(C10()))
