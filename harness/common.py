"""Shared runner for the SX checks: configurations in parallel, replay of
counterexamples on the real code, known findings, evidence, exit codes.

Exit codes (DESIGN 5): 0 all obligations discharged (known findings listed);
1 reproduced violation not listed in known_findings.json; 2 inconclusive or
harness error (never a verdict)."""

from __future__ import annotations

import hashlib
import json
import math
import multiprocessing as mp
import os
import subprocess
import sys
import time
import traceback

VERIF = os.path.dirname(os.path.dirname(os.path.abspath(__file__)))
REPO = os.environ.get("ASPIRE_REPO", "/repo")
if VERIF not in sys.path:
    sys.path.insert(0, VERIF)
if os.path.join(REPO, "src") not in sys.path:
    sys.path.insert(0, os.path.join(REPO, "src"))

os.environ.setdefault("SCIPY_ARRAY_API", "1")
os.environ.setdefault("ASPIRE_VERIF", "1")

import logging  # noqa: E402

logging.disable(logging.CRITICAL)

import z3  # noqa: E402

import sx  # noqa: E402
from sx import core  # noqa: E402

OUTSIDE_COMMON = [
    "reals for floats: ulp-level rounding is outside unless the obligation is an FP-sort one",
    "the symbolic namespace follows the generic (non-torch, non-jax) dispatch branches; torch/jax/numpy-specific behaviour is outside",
    "array sizes beyond the stated bounds",
]


class ConfigResult:
    def __init__(self, cfg):
        self.cfg = cfg
        self.stats = core.Stats()
        self.failures = []  # list of dict(label, goal, env, detail, cfg)
        self.inconclusive = []
        self.error = None
        self.wall = 0.0
        self.extra = {}


class Check:
    pid = "C00"
    title = ""
    functions_hint: list = []
    stubs: list = []
    outside: list = []
    bounds = {}

    def configs(self, tier):
        raise NotImplementedError

    def harness(self, cfg):
        """Return a callable harness(ctx) for the configuration."""
        raise NotImplementedError

    def ctx_for(self, cfg, seed):
        return sx.Ctx(self.pid, D=cfg.get("D", 1), seed=seed, timeout_ms=cfg.get("timeout_ms", 30000))

    def replay(self, cex):
        """Re-run a counterexample on the real code with plain numpy.
        Return (reproduced: bool, message: str)."""
        raise NotImplementedError

    def finding_of(self, cex):
        """Return the id of the known-finding region this counterexample falls
        into, or None."""
        return None

    def known_finding_probes(self):
        """[(finding_id, cex)] concrete inputs of the findings this check knows;
        each is replayed on the current tree."""
        return []

    def frontier(self, cfg, seed):
        """Decision prefixes at depth cfg['split_depth'] covering all paths."""
        ctx = self.ctx_for(cfg, seed)
        ctx.cfg = cfg
        ctx.frontier_depth = cfg["split_depth"]
        h = self.harness(cfg)
        sx.explore(h, ctx, max_paths=20000)
        return ctx.frontier, ctx.stats.queries, ctx.stats.solver_time

    def run_config(self, cfg, seed):
        res = ConfigResult(cfg)
        t0 = time.time()
        ctx = self.ctx_for(cfg, seed)
        ctx.cfg = cfg
        h = self.harness(cfg)
        prof = _Profiler()
        first = [True]

        def wrapped(c):
            if first[0]:
                first[0] = False
                with prof:
                    return h(c)
            return h(c)

        try:
            sx.explore(
                wrapped,
                ctx,
                max_paths=cfg.get("max_paths", 20000),
                deadline=t0 + cfg.get("deadline_s", 3000),
                start=cfg.get("_prefix"),
            )
        except core.Inconclusive as e:
            res.inconclusive.append(("feasibility", str(e)))
        except core.HarnessError as e:
            res.error = f"HarnessError: {e}"
        except Exception:
            res.error = traceback.format_exc()
        res.stats = ctx.stats
        res.stats.functions |= prof.functions
        res.inconclusive += ctx.inconclusive
        for f in ctx.failures:
            res.failures.append(
                {
                    "label": f.label,
                    "goal": core._clip(str(f.goal), 400),
                    "env": _clean_env(f.env),
                    "detail": f.detail,
                    "cfg": _jsonable(cfg),
                }
            )
        res.wall = time.time() - t0
        # strip unpicklable z3 objects
        res.stats.samples = _jsonable(res.stats.samples)
        return res


class _Profiler:
    """Records which aspire functions actually executed (first path only)."""

    def __init__(self):
        self.functions = set()

    def __enter__(self):
        root = os.path.join(REPO, "src", "aspire")

        def prof(frame, event, arg):
            if event == "call":
                fn = frame.f_code.co_filename
                if fn.startswith(root):
                    self.functions.add(
                        f"{os.path.relpath(fn, os.path.join(REPO, 'src'))}:{frame.f_code.co_qualname}"
                    )

        self._old = sys.getprofile()
        sys.setprofile(prof)
        return self

    def __exit__(self, *a):
        sys.setprofile(self._old)
        return False


def _clean_env(env):
    out = {}
    for k, v in env.items():
        if k == "__purified__":
            out[k] = {kk: vv for kk, vv in list(v.items())[:200]}
        else:
            out[k] = v
    return out


def _jsonable(x):
    if isinstance(x, dict):
        return {str(k): _jsonable(v) for k, v in x.items()}
    if isinstance(x, (list, tuple)):
        return [_jsonable(v) for v in x]
    if isinstance(x, (str, int, bool)) or x is None:
        return x
    if isinstance(x, float):
        if x != x or x in (math.inf, -math.inf):
            return repr(x)
        return x
    return str(x)


def _worker(args):
    check, cfg, seed = args
    try:
        return check.run_config(cfg, seed)
    except BaseException:
        r = ConfigResult(cfg)
        r.error = traceback.format_exc()
        return r


def _frontier_worker(args):
    check, cfg, seed = args
    try:
        fr, q, t = check.frontier(cfg, seed)
        return cfg, fr, None
    except BaseException:
        return cfg, None, traceback.format_exc()


def git_blob(path):
    try:
        return subprocess.check_output(["git", "-C", REPO, "hash-object", path], text=True).strip()
    except Exception:
        return None


def load_findings():
    p = os.path.join(VERIF, "known_findings.json")
    if not os.path.exists(p):
        return []
    return json.load(open(p))["findings"]


def main(check: Check, argv=None):
    import argparse

    ap = argparse.ArgumentParser()
    ap.add_argument("--tier", default=os.environ.get("VERIF_TIER", "quick"))
    ap.add_argument("--replay", default=None)
    ap.add_argument("--jobs", type=int, default=int(os.environ.get("VERIF_JOBS", "14")))
    ap.add_argument("--only", default=None, help="substring filter on configuration names")
    args = ap.parse_args(argv)
    seed = int(os.environ.get("VERIF_SEED", "0"))
    tier = args.tier if args.tier in ("quick", "thorough") else "quick"

    if args.replay:
        cex = json.load(open(args.replay))
        ok, msg = check.replay(cex)
        print(("REPRODUCED: " if ok else "not reproduced: ") + msg)
        if ok:
            print(f"VIOLATION property={check.pid} replay={args.replay}")
        return 1 if ok else 0

    t0 = time.time()
    cfgs = check.configs(tier)
    if args.only:
        cfgs = [c for c in cfgs if args.only in c.get("name", "")]
    # configurations that ask for it are split into sub-trees of the decision
    # tree (one worker per prefix) -- the union of the sub-trees is the whole tree
    split = [c for c in cfgs if c.get("split_depth")]
    frontier_errors = []
    if split and args.jobs > 1:
        with mp.get_context("fork").Pool(min(args.jobs, len(split))) as pool:
            fr = pool.map(_frontier_worker, [(check, c, seed) for c in split], chunksize=1)
        expanded = [c for c in cfgs if not c.get("split_depth")]
        for cfg, prefixes, err in fr:
            if err:
                frontier_errors.append((cfg.get("name"), err))
                continue
            for k, pre in enumerate(prefixes):
                c2 = dict(cfg)
                c2["_prefix"] = pre
                c2["_part"] = f"{k + 1}/{len(prefixes)}"
                expanded.append(c2)
        run_cfgs = expanded
    else:
        run_cfgs = cfgs
    jobs = [(check, c, seed) for c in run_cfgs]
    if len(jobs) > 1 and args.jobs > 1:
        with mp.get_context("fork").Pool(min(args.jobs, len(jobs))) as pool:
            results = pool.map(_worker, jobs, chunksize=1)
    else:
        results = [_worker(j) for j in jobs]

    total = core.Stats()
    errors, inconclusive, failures = list(frontier_errors), [], []
    per_cfg = []
    for r in results:
        total.merge(r.stats)
        if r.error:
            errors.append((r.cfg.get("name"), r.error))
        inconclusive += [(r.cfg.get("name"),) + tuple(i) for i in r.inconclusive]
        failures += r.failures
        per_cfg.append(
            {
                "name": r.cfg.get("name") + (f" [part {r.cfg['_part']}]" if r.cfg.get("_part") else ""),
                "paths": r.stats.paths,
                "cut_paths": r.stats.cut_paths,
                "queries": r.stats.queries,
                "obligations": r.stats.obligations,
                "discharged": r.stats.discharged,
                "wall_s": round(r.wall, 2),
            }
        )

    # --- known findings: replay the stored inputs on the current tree --------
    findings = {f["id"]: f for f in load_findings() if f["property"] == check.pid}
    known_hit = []
    for fid, cex in check.known_finding_probes():
        f = findings.get(fid)
        if f is None or f.get("status") != "open":
            continue
        ok, msg = check.replay(cex)
        if ok:
            known_hit.append(fid)
            print(f"KNOWN-FINDING: property={check.pid} {f['what']}")

    # --- counterexamples: replay before reporting ---------------------------
    violations = []
    harness_errors = []
    seen = set()
    for fl in failures:
        cex = check.to_cex(fl) if hasattr(check, "to_cex") else fl
        key = hashlib.sha1(json.dumps(_jsonable(cex), sort_keys=True).encode()).hexdigest()[:12]
        if key in seen:
            continue
        seen.add(key)
        try:
            ok, msg = check.replay(cex)
        except Exception:
            ok, msg = False, "replay raised: " + traceback.format_exc()[-600:]
        if not ok:
            if (fl.get("detail") or {}).get("candidate_from_abstraction") or (fl.get("detail") or {}).get("path_unverified"):
                inconclusive.append((fl["cfg"].get("name"), fl["label"], "candidate model of the FP abstraction did not reproduce and the bit-precise query timed out"))
            else:
                harness_errors.append((fl["label"], msg, cex))
            continue
        fid = check.finding_of(cex)
        if fid is not None and findings.get(fid, {}).get("status") == "open":
            if fid not in known_hit:
                known_hit.append(fid)
                print(f"KNOWN-FINDING: property={check.pid} {findings[fid]['what']}")
            continue
        rdir = os.environ.get("VERIF_REPLAY_DIR") or os.path.join(VERIF, "replays")
        os.makedirs(rdir, exist_ok=True)
        path = os.path.join(rdir, f"{check.pid}-{key}.json")
        with open(path, "w") as f:
            json.dump(_jsonable(cex), f, indent=1)
        violations.append((fl["label"], msg, path))

    vacuous = [
        lab for lab in getattr(check, "required_labels", []) if total.reached.get(lab, 0) == 0 and not args.only
    ]

    wall = time.time() - t0
    files = sorted({fn.split(":")[0] for fn in total.functions})
    ev = {
        "property_id": check.pid,
        "tier": tier,
        "seed": seed,
        "level": "model_checking",
        "coverage": {
            "states": total.paths,
            "transitions": total.queries,
            "traces_validated_against_impl": total.validated,
            "samples": total.samples[:6] or [{"note": "no non-trivial obligation sampled"}],
            "obligations": total.obligations,
            "discharged": total.discharged,
            "cut_paths": total.cut_paths,
            "infeasible_paths": total.infeasible_paths,
            "solver_unknown": total.unknown,
            "solver_time_s": round(total.solver_time, 2),
            "obligations_by_label": {k: {"posed": v[0], "discharged": v[1]} for k, v in sorted(total.by_label.items())},
            "labels_reached": total.reached,
            "functions_encoded": sorted(total.functions),
            "source_blobs": {f: git_blob(os.path.join(REPO, "src", f)) for f in files},
            "bounds": check.bounds.get(tier, check.bounds) if isinstance(check.bounds, dict) else check.bounds,
            "configurations": per_cfg,
            "solvers": [f"z3 {z3.get_version_string()} (qfnra-nlsat after purification; SMT core for linear/UF problems)"],
            "stubs": check.stubs,
            "outside_claim": check.outside + OUTSIDE_COMMON,
            "known_findings_hit": known_hit,
            "exhaustive": False,
            "explanation": "bounded symbolic execution of the real aspire functions on a z3-backed Array-API namespace; every obligation is a solver query over all inputs within the bounds",
        },
        "assumptions": check.stubs + check.outside,
        "wall_s": round(wall, 2),
        "violations": len(violations),
    }
    evdir = os.environ.get("VERIF_EVIDENCE_DIR") or os.path.join(VERIF, "evidence")
    os.makedirs(evdir, exist_ok=True)
    with open(os.path.join(evdir, f"{check.pid}.json"), "w") as f:
        json.dump(ev, f, indent=1)

    print(
        f"{check.pid} tier={tier}: configs={len(cfgs)} paths={total.paths} cut={total.cut_paths} "
        f"queries={total.queries} obligations={total.obligations} discharged={total.discharged} "
        f"validated={total.validated} solver={total.solver_time:.1f}s wall={wall:.1f}s"
    )
    code = 0
    for lab, msg, path in violations[:3]:
        print(f"  refuted obligation '{lab}': {msg}")
        print(f"VIOLATION property={check.pid} replay={path}")
        code = 1
    if len(violations) > 3:
        print(f"  ... and {len(violations) - 3} further reproduced counterexamples (replays/{check.pid}-*.json)")
    if code == 0:
        for name, err in errors:
            print(f"HARNESS-ERROR [{name}]: {err}")
            code = 2
        for lab, msg, cex in harness_errors:
            print(f"HARNESS-ERROR: counterexample for '{lab}' did not reproduce on the real code: {msg}")
            code = 2
        for inc in inconclusive:
            print(f"INCONCLUSIVE: {inc}")
            code = 2
        for lab in vacuous:
            print(f"HARNESS-ERROR: obligation label '{lab}' was never reached (vacuous harness)")
            code = 2
        if total.paths == 0:
            print("HARNESS-ERROR: no feasible path explored")
            code = 2
    return code
