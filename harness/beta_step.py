"""Step harness for the temperature search (shared by C06 and C07).

Real code executed symbolically: SMCSampler.__init__, the target_efficiency
setter, current_target_efficiency, determine_beta (adaptive and fixed
branches), SMCSamples.unnormalized_log_weights / log_weights,
utils.effective_sample_size, utils.logsumexp.

The ladder values (beta_prev, probes, tolerance, min_step) are concrete python
floats during the run, so their arithmetic is the real IEEE arithmetic; the
solver decides which bisection paths a real population can drive."""

from __future__ import annotations

import math
from fractions import Fraction

import numpy as np

from harness.common import sx, core, z3
from harness.stubs import FlowStub, Target, UserFns
from harness.util import env_array


def make_sampler(ctx, d=1):
    from aspire.samplers.smc.base import SMCSampler

    fns = UserFns(d)
    tgt = Target(ctx, d, fns)
    return SMCSampler(
        log_likelihood=tgt.log_likelihood,
        log_prior=tgt.log_prior,
        dims=d,
        prior_flow=FlowStub(ctx, d, fns),
        xp=sx,
        rng=object(),
    )


def probe_grid(beta_prev, tol):
    """All points the bisection can probe from beta_prev with tolerance tol."""
    pts = set()

    def rec(lo, hi):
        if hi - lo > tol:
            mid = 0.5 * (lo + hi)
            pts.add(mid)
            rec(lo, mid)
            rec(mid, hi)

    rec(beta_prev, 1.0)
    pts.add(1.0)
    return sorted(pts)


def configs(tier):
    out = []
    if tier == "quick":
        grid = [
            dict(N=3, beta_prev=0.0, tol=0.25, D=4, pop="ll"),
            dict(N=2, beta_prev=0.5, tol=0.25, D=8, pop="ll"),
            dict(N=2, beta_prev=0.0, tol=0.25, D=4, pop="all"),
            # late in the ladder the floor beta_prev + min_step lies above 1: clamp
            dict(N=2, beta_prev=0.75, tol=0.25, D=8, pop="ll", only_ms=("half", "cap"), only_targets=("sym",)),
        ]
    else:
        grid = [
            dict(N=3, beta_prev=0.0, tol=0.25, D=4, pop="ll"),
            # N = 4 and tolerance 1/8 from beta_prev = 0 did not finish within 40 minutes on 16
            # idle cores (each configuration ran past 7 minutes alone): not part of any claim
            dict(N=3, beta_prev=0.5, tol=0.25, D=8, pop="ll"),
            dict(N=2, beta_prev=0.0, tol=0.125, D=8, pop="ll"),
            dict(N=3, beta_prev=0.0, tol=0.25, D=4, pop="all"),
            dict(N=3, beta_prev=0.75, tol=0.25, D=8, pop="ll", only_ms=("half", "cap"), only_targets=("sym",)),
            dict(N=3, beta_prev=0.5, tol=0.125, D=8, pop="ll", only_ms=("cap",), only_targets=("sym",)),
        ]
    for g in grid:
        targets = [("sym", None), ("ramp", 1.0)] if g["pop"] == "ll" else [("float", 0.5)]
        if tier == "thorough" and g["pop"] == "ll" and g["N"] == 3 and g["tol"] == 0.25 and g["beta_prev"] == 0.0:
            targets.append(("ramp", 2.0))
        for tk, tv in targets:
            if g.get("only_targets") and tk not in g["only_targets"]:
                continue
            for ms in ("zero", "half", "cap"):
                if tk == "ramp" and ms != "zero":
                    continue
                if g.get("only_ms") and ms not in g["only_ms"]:
                    continue
                c = {k: v for k, v in g.items() if not k.startswith("only_")}
                c.update(kind="step", target=tk, target_arg=tv, min_step=ms)
                c["name"] = f"step-N{g['N']}-b{g['beta_prev']}-tol{g['tol']}-{g['pop']}-{tk}{tv or ''}-{ms}"
                c["timeout_ms"] = 120000 if g["D"] <= 4 else 900000
                if g["N"] >= 3:
                    c["split_depth"] = 3
                out.append(c)
    # histories of the public setter on ONE sampler object (what successive sample() calls do):
    # the target in force is the LAST one set
    for k, hist in enumerate(SETTER_HISTORIES):
        g = dict(N=2 if tier == "quick" else 3, beta_prev=0.0 if k % 2 == 0 else 0.5, tol=0.25, pop="ll")
        g["D"] = 4 if g["beta_prev"] == 0.0 else 8
        c = dict(g)
        c.update(kind="step", target="history", target_arg=k, min_step="zero")
        c["name"] = f"step-N{g['N']}-b{g['beta_prev']}-tol0.25-ll-history{k}-zero"
        c["timeout_ms"] = 120000 if g["D"] <= 4 else 900000
        out.append(c)
    # the non-adaptive branch (fixed step), concrete
    out.append(dict(kind="fixed_step", name="fixed-step-branch", N=2, D=1))
    out.append(dict(kind="setter", name="target-setter", N=2, D=1))
    return out


# (value given to the public setter, rate) in order; the last entry is in force
SETTER_HISTORIES = [
    [((0.25, 0.875), 1.0), (0.625, 1.0)],
    [(0.625, 1.0), ((0.25, 0.875), 1.0)],
    [((0.25, 0.875), 2.0), (0.5, 2.0), (0.75, 1.0)],
    [(0.375, 1.0), ((0.5, 0.75), 1.0), ((0.125, 0.625), 2.0)],
]


def _apply_history(smp, k):
    """Drive the public setter; return target(b) of the last entry as a python function."""
    for value, rate in SETTER_HISTORIES[k]:
        smp.target_efficiency = value
        smp.target_efficiency_rate = rate
    value, rate = SETTER_HISTORIES[k][-1]
    if isinstance(value, tuple):
        return lambda b: value[0] + (value[1] - value[0]) * float(b) ** rate
    return lambda b: value


def harness(cfg, props):
    if cfg["kind"] == "fixed_step":
        return _h_fixed_step(cfg, props)
    if cfg["kind"] == "setter":
        return _h_setter(cfg, props)
    return _h_step(cfg, props)


def _population(ctx, cfg):
    from aspire.samples import SMCSamples

    N = cfg["N"]
    ll = sx.sym("ll", N)
    if cfg["pop"] == "all":
        lp, lq = sx.sym("lp", N), sx.sym("lq", N)
    else:
        lp, lq = sx.zeros(N), sx.zeros(N)
    x = sx.sym("x", (N, 1))
    s = SMCSamples(x=x, log_likelihood=ll, log_prior=lp, log_q=lq, beta=cfg["beta_prev"], xp=sx)
    w = [sx.term(ll[i] + lp[i] - lq[i]) for i in range(N)]
    return s, w


def _h_step(cfg, props):
    N, bp, tol = cfg["N"], cfg["beta_prev"], cfg["tol"]

    def h(ctx):
        smp = make_sampler(ctx)
        smp.adaptive = True
        smp.target_efficiency_rate = 1.0
        # --- target efficiency ------------------------------------------------
        if cfg["target"] == "float":
            smp.target_efficiency = cfg["target_arg"]
            target_at = lambda b: core.rv(cfg["target_arg"])  # noqa: E731
        elif cfg["target"] == "history":
            tf = _apply_history(smp, cfg["target_arg"])
            target_at = lambda b: core.rv(float(tf(b)))  # noqa: E731
        elif cfg["target"] == "sym":
            t = sx.sym("teff")
            ctx.add_assume(z3.And(sx.term(t) > 0, sx.term(t) < 1))
            smp._target_efficiency = t
            smp._adapative_target_efficiency = False
            target_at = lambda b: sx.term(t)  # noqa: E731
        else:
            t0, t1 = sx.sym("teff0"), sx.sym("teff1")
            ctx.add_assume(z3.And(sx.term(t0) > 0, sx.term(t0) < sx.term(t1), sx.term(t1) < 1))
            smp._target_efficiency = (t0, t1)
            smp._adapative_target_efficiency = True
            smp.target_efficiency_rate = cfg["target_arg"]
            rate = cfg["target_arg"]
            target_at = lambda b: sx.term(t0) + (sx.term(t1) - sx.term(t0)) * core.rv(float(b) ** rate)  # noqa: E731
        # --- minimum step -------------------------------------------------------
        if cfg["min_step"] == "zero":
            smp.adaptive_min_step = False
            ms = 0.0
        elif cfg["min_step"] == "half":
            smp.adaptive_min_step = False
            ms = 0.5
        else:  # derived from max_n_steps = 4, rescaled every step
            smp.adaptive_min_step = True
            ms = 1 / 4
        s, w = _population(ctx, cfg)

        def ess_ok(b):
            """spec: ESS(b)/N >= target in force at beta_prev"""
            q = Fraction(b) - Fraction(bp)
            om = [sx.term(sx.exp(sx.asarray(q * sx.asarray(wi)))) for wi in w]
            s1 = z3.Sum(om)
            s2 = z3.Sum([o * o for o in om])
            return s1 * s1 >= target_at(bp) * N * s2

        try:
            beta, new_ms = smp.determine_beta(s, bp, float("nan"), ms, beta_tolerance=tol)
        except (core.PathCut, core.Infeasible, core.Inconclusive, core.HarnessError):
            raise
        except Exception as e:  # noqa: BLE001
            if "C06" in props:
                ctx.prove(False, "c06/no_exception", detail={"exception": repr(e)})
            return
        if isinstance(beta, sx.Array):
            raise core.HarnessError("symbolic temperature returned")
        ctx.notes["result"] = (beta, new_ms)
        floor = min(1.0, bp + (new_ms if cfg["min_step"] == "cap" else ms))
        if "C06" in props:
            ctx.prove(beta > bp, "c06/strictly_increasing", detail={"beta": beta, "beta_prev": bp, "min_step": ms})
            ctx.prove(beta <= 1.0, "c06/at_most_one", detail={"beta": beta})
            ctx.prove(beta >= floor, "c06/min_step_honoured", detail={"beta": beta, "floor": floor})
            ctx.prove((not isinstance(new_ms, sx.Array)) and new_ms >= 0 and math.isfinite(new_ms), "c06/min_step_valid", detail={"new_min_step": repr(new_ms)})
            if cfg["min_step"] != "cap":
                ctx.prove(new_ms == ms, "c06/min_step_unchanged")
        if "C07" in props:
            forced = beta == floor and (ms > 0)
            grid = probe_grid(bp, tol)
            if not forced:
                # (i) the step meets the target
                if beta != bp:
                    ctx.prove(ess_ok(beta), "c07/meets_target", detail={"beta": beta})
                # (ii) maximal within the tolerance
                if beta != 1.0:
                    above = [g for g in grid if beta < g <= beta + tol]
                    ctx.prove(len(above) > 0, "c07/grid")
                    ctx.prove(z3.Or(*[z3.Not(ess_ok(g)) for g in above]), "c07/maximal", detail={"beta": beta, "above": above})
                    # (iii) a full step that meets the target must be taken
                    ctx.prove(z3.Not(ess_ok(1.0)), "c07/full_step", detail={"beta": beta})
            else:
                ctx.reach("c07/forced_by_floor")
                # the floor only ever raises the step: the unforced answer is not above it
                if beta != 1.0:
                    ctx.prove(z3.Not(ess_ok(1.0)), "c07/full_step", detail={"beta": beta})

        def runner(env):
            smp2, s2 = np_step_setup(cfg, env)
            b2, m2 = smp2.determine_beta(s2, bp, float("nan"), ms, beta_tolerance=tol)
            return {"beta": b2}

        ctx.validate({"beta": [core.rv(beta)]}, runner)

    return h


def np_step_setup(cfg, env):
    """The same call on the real code with NumPy (replay / validation)."""
    from aspire.samplers.smc.base import SMCSampler
    from aspire.samples import SMCSamples

    N, bp = cfg["N"], cfg["beta_prev"]
    smp = SMCSampler(log_likelihood=None, log_prior=None, dims=1, prior_flow=None, xp=np, rng=object())
    smp.adaptive = True
    smp.target_efficiency_rate = 1.0
    if cfg["target"] == "float":
        smp.target_efficiency = cfg["target_arg"]
    elif cfg["target"] == "history":
        smp._verif_target = _apply_history(smp, cfg["target_arg"])
    elif cfg["target"] == "sym":
        smp.target_efficiency = float(_get(env, "teff", 0.5))
    else:
        smp.target_efficiency = (float(_get(env, "teff0", 0.3)), float(_get(env, "teff1", 0.6)))
        smp.target_efficiency_rate = cfg["target_arg"]
    smp.adaptive_min_step = cfg["min_step"] == "cap"
    ll = np.asarray(env_array(env, "ll", (N,)))
    if cfg["pop"] == "all":
        lp, lq = np.asarray(env_array(env, "lp", (N,))), np.asarray(env_array(env, "lq", (N,)))
    else:
        lp, lq = np.zeros(N), np.zeros(N)
    s = SMCSamples(x=np.zeros((N, 1)), log_likelihood=ll, log_prior=lp, log_q=lq, beta=bp)
    return smp, s


def _get(env, k, default):
    v = env.get(k)
    return default if v is None else v


def _h_fixed_step(cfg, props):
    def h(ctx):
        smp = make_sampler(ctx)
        smp.adaptive = False
        smp.adaptive_min_step = False
        s, _ = _population(ctx, dict(N=2, pop="ll", beta_prev=0.0))
        if "C06" in props:
            for b, step in ((0.0, 0.5), (0.5, 0.5), (0.75, 0.5), (0.0, 1.0), (0.3, 0.1)):
                beta, ms = smp.determine_beta(s, b, step, 0.0)
                ctx.prove(beta == min(1.0, b + step) and b < beta <= 1.0 and ms == 0.0, "c06/fixed_step")

    return h


def _h_setter(cfg, props):
    def h(ctx):
        smp = make_sampler(ctx)
        if "C07" not in props:
            return
        smp.target_efficiency = 0.3
        smp.target_efficiency_rate = 2.0
        ctx.prove(smp.current_target_efficiency(0.7) == 0.3 and not smp._adapative_target_efficiency, "c07/setter")
        smp.target_efficiency = (0.2, 0.8)
        ctx.prove(smp._adapative_target_efficiency, "c07/setter")
        for b in (0.0, 0.5, 1.0):
            want = 0.2 + (0.8 - 0.2) * b**2.0
            ctx.prove(abs(smp.current_target_efficiency(b) - want) < 1e-15, "c07/ramp")
        for bad in (0.0, 1.0, -0.1, (0.5, 0.4), (0.0, 0.5), (0.2, 1.0), (0.1, 0.2, 0.3)):
            try:
                smp.target_efficiency = bad
                ctx.prove(False, "c07/setter_rejects", detail={"value": repr(bad)})
            except ValueError:
                ctx.prove(True, "c07/setter_rejects")

    return h


# ---------------------------------------------------------------------------
# replay


def to_cex(fl):
    cfg = fl["cfg"]
    env = {k: v for k, v in fl["env"].items() if k != "__purified__" and "!" not in k}
    return {"cfg": cfg, "label": fl["label"], "env": env, "detail": fl.get("detail")}


def replay_step(cex, props):
    """Real determine_beta on NumPy; independent float oracle for the C06 and
    C07 step clauses.  Returns (reproduced, message, info)."""
    cfg = cex["cfg"]
    if cfg["kind"] != "step":
        return False, "concrete configuration", {}
    env = cex["env"]
    N, bp, tol = cfg["N"], cfg["beta_prev"], cfg["tol"]
    ms = {"zero": 0.0, "half": 0.5, "cap": 0.25}[cfg["min_step"]]
    smp, s = np_step_setup(cfg, env)
    bad = []
    info = {"beta_prev": bp, "min_step": ms}
    with np.errstate(all="ignore"):
        try:
            beta, new_ms = smp.determine_beta(s, bp, float("nan"), ms, beta_tolerance=tol)
        except Exception as e:  # noqa: BLE001
            info["exception"] = type(e).__name__
            if "C06" in props:
                return True, f"determine_beta raised {type(e).__name__}: {e}", info
            return False, "exception (a C06 matter)", info
        info["beta"] = beta
        w = s.log_likelihood + s.log_prior - s.log_q
        # the target in force: what the harness set (never the sampler's own
        # bookkeeping, which is part of what is being checked)
        if cfg["target"] == "history":
            target = float(smp._verif_target(bp))
        elif cfg["target"] == "float":
            target = float(cfg["target_arg"])
        elif cfg["target"] == "sym":
            target = float(_get(env, "teff", 0.5))
        else:
            t0, t1 = float(_get(env, "teff0", 0.3)), float(_get(env, "teff1", 0.6))
            target = t0 + (t1 - t0) * float(bp) ** float(cfg["target_arg"])

        def eff(b):
            lw = (b - bp) * w
            lw = lw - lw.max()
            om = np.exp(lw)
            return float(om.sum() ** 2 / (om**2).sum()) / N

        floor = min(1.0, bp + (new_ms if cfg["min_step"] == "cap" else ms))
        if "C06" in props:
            if not (beta > bp):
                bad.append(f"temperature did not increase: {bp} -> {beta}")
            if not (beta <= 1.0):
                bad.append(f"temperature above one: {beta}")
            if beta < floor:
                bad.append(f"minimum step not honoured: {beta} < {floor}")
            if not (new_ms >= 0 and math.isfinite(new_ms)):
                bad.append(f"invalid new minimum step {new_ms}")
        if "C07" in props:
            forced = beta == floor and ms > 0
            slack = 1e-9
            if not forced:
                if beta != bp and eff(beta) < target - slack:
                    bad.append(f"ESS/N at the chosen temperature {beta} is {eff(beta):.6g} < target {target:.6g}")
                if beta != 1.0:
                    above = [g for g in probe_grid(bp, tol) if beta < g <= beta + tol]
                    if all(eff(g) >= target + slack for g in above):
                        bad.append(f"not maximal: every probe in ({beta}, {beta + tol}] meets the target")
                    if eff(1.0) >= target + slack:
                        bad.append("the full step meets the target but was not taken")
            elif beta != 1.0 and eff(1.0) >= target + slack:
                bad.append("the full step meets the target but was not taken")
    return (len(bad) > 0, "; ".join(bad[:3]) if bad else "all step clauses hold on this input", info)
