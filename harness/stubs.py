"""Environment stubs (DESIGN 2.5).  Every stub is part of the claim of each
check that uses it and is listed in that check's evidence."""

from __future__ import annotations

import numpy as np

from harness.common import core, sx, z3


class _BitGen:
    def __init__(self, rng):
        self._rng = rng

    @property
    def state(self):
        return {"bit_generator": "SymStream", "stream": self._rng.stream, "counter": self._rng.counter}

    @state.setter
    def state(self, st):
        self._rng.stream = st["stream"]
        self._rng.counter = st["counter"]


class SymRng:
    """numpy.random.Generator stub: a counter-indexed stream.  Draw j of stream
    s is a fresh symbolic value named after (s, j), so two generators in the
    same state produce the identical terms and a generator whose state was not
    restored produces different ones."""

    def __init__(self, ctx, stream="g", counter=0):
        self.ctx = ctx
        self.stream = stream
        self.counter = counter
        self.bit_generator = _BitGen(self)
        self.p_seen = []
        self.idx_seen = []
        self.calls = []

    def _next(self):
        self.counter += 1
        return f"{self.stream}{self.counter}"

    def choice(self, n, size=None, replace=True, p=None):
        n = int(n)
        tag = self._next()
        self.calls.append(("choice", tag))
        if p is not None:
            self.p_seen.append(sx.asarray(p))
        m = int(size) if size is not None else 1
        cells = np.empty((m,), dtype=object)
        for k in range(m):
            v = z3.Real(f"idx_{tag}_{k}")
            self.ctx.add_assume(z3.Or(*[v == j for j in range(n)]))
            cells[k] = v
        out = sx.Array(cells, sx.int64)
        self.idx_seen.append(out)
        return out

    def uniform(self, low=0.0, high=1.0, size=None):
        tag = self._next()
        self.calls.append(("uniform", tag))
        u = sx.sym(f"u_{tag}", int(size) if size is not None else ())
        for t in sx.terms(u):
            self.ctx.add_assume(z3.And(t > 0, t < 1))
        return u


def uf(name, d, sort=None):
    sort = core.R if sort is None else sort
    return z3.Function(name, *([sort] * (d + 1)))


class UserFns:
    """Uninterpreted log-likelihood L, log-prior PI and proposal log-density Q,
    applied row-wise: deterministic functions of the coordinates only."""

    def __init__(self, d, names=("L", "PI", "Q"), sort=None):
        self.d = d
        self.L = uf(names[0], d, sort)
        self.PI = uf(names[1], d, sort)
        self.Q = uf(names[2], d, sort)

    def rows(self, x):
        x = sx.asarray(x)
        if x.ndim == 1:
            x = x.reshape(-1, self.d)
        return [sx.terms(x[i]) for i in range(x.shape[0])]

    def apply(self, f, x):
        vals = [f(*r) for r in self.rows(x)]
        out = np.empty((len(vals),), dtype=object)
        for i, v in enumerate(vals):
            out[i] = v
        return sx.Array(out, sx.float64)


class Target:
    """The user's log_likelihood / log_prior as uninterpreted functions of the
    coordinates.  The likelihood callable also poses the C17 obligations about
    what it is handed and counts the points it is asked to evaluate."""

    def __init__(self, ctx, d, fns: UserFns | None = None, check_c17=True):
        self.ctx = ctx
        self.d = d
        self.f = fns or UserFns(d)
        self.n_points = 0
        self.ll_calls = []
        self.lp_calls = []
        self.check_c17 = check_c17
        self.fail_at = None  # inject an exception at the k-th likelihood call

    def log_prior(self, samples):
        self.lp_calls.append(samples)
        return self.f.apply(self.f.PI, samples.x)

    def log_likelihood(self, samples):
        self.ll_calls.append(samples)
        n = len(samples.x)
        self.n_points += n
        if self.fail_at is not None and len(self.ll_calls) == self.fail_at:
            raise InjectedFault(f"fault injected at likelihood call {self.fail_at}")
        if self.check_c17:
            ctx = self.ctx
            lp = samples.log_prior
            ok = lp is not None and len(sx.asarray(lp)) == n
            ctx.prove(bool(ok), "c17/prior_attached")
            if ok:
                want = self.f.apply(self.f.PI, samples.x)
                for a, b in zip(sx.terms(sx.asarray(lp)), sx.terms(want)):
                    ctx.prove(a == b, "c17/prior_of_same_points")
        return self.f.apply(self.f.L, samples.x)


class InjectedFault(Exception):
    pass


class FlowStub:
    """prior_flow stub: log_prob(x) = Q(x) row-wise; sample_and_log_prob(n)
    returns fresh symbolic coordinates (named after a draw counter) and Q of
    them."""

    xp = sx

    def __init__(self, ctx, d, fns: UserFns, tag="q"):
        self.ctx = ctx
        self.d = d
        self.f = fns
        self.tag = tag
        self.n_draws = 0
        self.max_draws = None
        self.draws = []
        self.log_prob_calls = []

    def log_prob(self, x):
        self.log_prob_calls.append(x)
        return self.f.apply(self.f.Q, x)

    # -- persistence (the Aspire.resume_from_file route): the stub writes a marker
    # group; loading hands back the registered stub (the proposal is a function
    # of the coordinates only, so "the same flow" is the same Q)
    REGISTRY = {}

    def save(self, h5_file, path="flow"):
        g = h5_file.create_group(path)
        g.attrs["stub"] = self.tag
        FlowStub.REGISTRY[self.tag] = self

    @classmethod
    def load(cls, h5_file, path="flow"):
        return FlowStub.REGISTRY[h5_file[path].attrs["stub"]]

    def sample_and_log_prob(self, n):
        self.n_draws += 1
        if self.max_draws is not None and self.n_draws > self.max_draws:
            raise core.PathCut()
        x = sx.sym(f"{self.tag}{self.n_draws}", (int(n), self.d))
        self.draws.append(x)
        if getattr(self, "on_draw", None):
            self.on_draw(x)
        return x, self.f.apply(self.f.Q, x)


class StubTransform:
    """Preconditioning transform returning arbitrary symbolic (x, log|det dx/dz|):
    covers identity, periodic, bounded, affine and flow preconditioning at
    once, since the target formula may not depend on which it is."""

    def __init__(self, ctx, d):
        self.ctx = ctx
        self.d = d
        self.xp = sx
        self.dtype = None
        self.n = 0
        self.inverse_calls = []

    def fit(self, x):
        return x

    def forward(self, x):
        raise core.HarnessError("StubTransform.forward is not expected to be called")

    def inverse(self, z):
        self.n += 1
        z = sx.asarray(z)
        b = z.shape[0] if z.ndim > 1 else 1
        X = sx.sym(f"tx{self.n}", (b, self.d))
        LJ = sx.sym(f"tlj{self.n}", (b,))
        self.inverse_calls.append((z, X, LJ))
        return X, LJ
