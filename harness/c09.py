"""C09 -- resampling selects by incremental weight and copies particles intact.

Real code executed symbolically: SMCSamples.__post_init__, .resample,
.log_weights, .unnormalized_log_weights, utils.logsumexp, utils.to_numpy.
Observation points: the probability vector the generator stub receives and
the rows of the resampled population (the index vector is symbolic, so one
path covers every index vector)."""

from __future__ import annotations

import math
from fractions import Fraction

import numpy as np

from harness.common import Check, main, sx, core, z3
from harness.stubs import SymRng
from harness.util import env_array, ScriptedRng
from harness.loop_base import LoopCheck

PARAMS2 = ["alpha", "beta_par"]


class _Loop09(LoopCheck):
    """Every resampling the sampler performs inside a run -- one per tempering
    iteration and the final enlargement -- observed at the generator stub and
    at the kernel's input."""

    pid = "C09"
    props = {"C09"}
    flows = ("plain",)
    adaptive_N3 = ()


class C09(Check):
    pid = "C09"
    required_labels = ["prob_proportional", "prob_normalised", "row_copy", "beta", "size"]
    stubs = [
        "numpy.random.Generator.choice -> records p, returns fresh symbolic indices in [0,N) (counter-indexed stream)",
        "temperatures on the concrete grid {0, 1/4, 1/2, 3/4, 1}",
    ]
    outside = ["torch / jax namespaces", "the generator's own sampling law given p (numpy)"]
    bounds = {
        "quick": {"N": [2, 3], "d": 2, "sizes": "N, N+1, N-1", "beta_pairs": [[0, 0.5], [0.25, 1.0], [1.0, 1.0]], "whole_runs": LoopCheck.bounds["quick"]},
        "thorough": {"N": [2, 3, 4], "d": 2, "sizes": "N, N+1, N-1", "beta_pairs": [[0, 0.5], [0.25, 1.0], [0.5, 0.75], [0, 1], [1.0, 1.0]], "whole_runs": LoopCheck.bounds["thorough"]},
    }
    stubs = stubs + ["whole runs (configurations loop-*): " + t for t in LoopCheck.stubs]
    outside = outside + LoopCheck.outside

    def configs(self, tier):
        out = []
        ns = [2, 3] if tier == "quick" else [2, 3, 4]
        pairs = [(0.0, 0.5), (0.25, 1.0)] if tier == "quick" else [(0.0, 0.5), (0.25, 1.0), (0.5, 0.75), (0.0, 1.0)]
        for n in ns:
            for b0, b1 in pairs:
                for size in (None, n + 1, n - 1):
                    if size == 0:
                        continue
                    if tier == "quick" and size is not None and (b0, b1) != pairs[0]:
                        continue
                    out.append({"name": f"N{n}-b{b0}-{b1}-m{size}", "N": n, "b0": b0, "b1": b1, "size": size, "D": 4})
        out.append({"name": "same-beta", "N": 2, "b0": 0.5, "b1": 0.5, "size": None, "D": 4})
        # an unchanged temperature with an explicit size is a genuine (uniform-weight)
        # resampling: the final n_final_samples stage after beta reached 1
        out.append({"name": "same-beta-m3", "N": 2, "b0": 1.0, "b1": 1.0, "size": 3, "D": 4})
        out.append({"name": "same-beta-m2of3", "N": 3, "b0": 1.0, "b1": 1.0, "size": 2, "D": 4})
        # multi-step histories on ONE object: weights are inspected, per-particle
        # fields are re-assigned (as every mutate() does), then the set is resampled
        for n in ([2] if tier == "quick" else [2, 3]):
            out.append({"name": f"reassign-N{n}", "N": n, "b0": 0.0, "b1": 0.5, "size": None, "D": 4, "reassign": True})
        for c in _Loop09().configs(tier):
            c["kind"] = "loop"
            c["name"] = "loop-" + c["name"]
            out.append(c)
        return out

    def ctx_for(self, cfg, seed):
        if cfg.get("kind") == "loop":
            return _Loop09().ctx_for(cfg, seed)
        return super().ctx_for(cfg, seed)

    def harness(self, cfg):
        if cfg.get("kind") == "loop":
            return _Loop09().harness(cfg)
        from aspire.samples import SMCSamples

        N, b0, b1, size = cfg["N"], cfg["b0"], cfg["b1"], cfg["size"]
        d = 2

        def h(ctx):
            x = sx.sym("x", (N, d))
            ll, lp, lq = sx.sym("ll", N), sx.sym("lp", N), sx.sym("lq", N)
            s = SMCSamples(x=x, log_likelihood=ll, log_prior=lp, log_q=lq, beta=b0, xp=sx, parameters=list(PARAMS2), dtype=sx.float32)
            rng = SymRng(ctx)
            if cfg.get("reassign"):
                # look at the weights of this move, then replace the cached densities
                s.log_weights(b1)
                s.log_evidence_ratio(b1)
                ll, lp, lq = sx.sym("ll2", N), sx.sym("lp2", N), sx.sym("lq2", N)
                s.log_likelihood = ll
                s.log_prior = lp
                s.log_q = lq
            try:
                out = s.resample(b1, n_samples=size, rng=rng)
            except AttributeError as e:
                # the generator stub only offers what a weighted draw needs
                ctx.prove(False, "one_draw", detail={"generator_misuse": repr(e)})
                return
            if b1 == b0 and size is None:
                ctx.prove(out is s, "same_beta_identity")
                return
            M = size if size is not None else N
            ctx.prove(len(rng.p_seen) == 1 and len(rng.idx_seen) == 1, "one_draw")
            if len(rng.p_seen) != 1:
                return
            p = sx.terms(rng.p_seen[0])
            ctx.prove(len(p) == N, "prob_len")
            db = Fraction(b1) - Fraction(b0)
            w = [sx.term(sx.exp(sx.asarray(db * (ll[i] + lp[i] - lq[i])))) for i in range(N)]
            sw = z3.Sum(w)
            for i in range(N):
                ctx.prove(p[i] * sw == w[i], "prob_proportional")
            ctx.prove(z3.Sum(p) == 1, "prob_normalised")
            idx = sx.terms(rng.idx_seen[0])
            ctx.prove(len(idx) == M, "size")
            ctx.prove(len(out) == M and out.x.shape == (M, d), "size")
            ox = [sx.terms(out.x[k]) for k in range(M)]
            oll, olp, olq = sx.terms(out.log_likelihood), sx.terms(out.log_prior), sx.terms(out.log_q)
            X = [sx.terms(x[j]) for j in range(N)]
            LL, LP, LQ = sx.terms(ll), sx.terms(lp), sx.terms(lq)
            for k in range(M):
                for j in range(N):
                    ctx.prove(
                        z3.Implies(
                            idx[k] == j,
                            z3.And(*[ox[k][c] == X[j][c] for c in range(d)], oll[k] == LL[j], olp[k] == LP[j], olq[k] == LQ[j]),
                        ),
                        "row_copy",
                    )
            ctx.prove(out.beta == b1, "beta")
            ctx.prove(out.parameters == PARAMS2, "parameters")
            ctx.prove(out.dtype == s.dtype and out.x.dtype == s.x.dtype, "dtype")

            def runner(env):
                s2 = _np_pop(env, N, d, b0)
                if cfg.get("reassign"):
                    s2.log_weights(b1)
                    s2.log_likelihood = np.asarray(env_array(env, "ll2", (N,)))
                    s2.log_prior = np.asarray(env_array(env, "lp2", (N,)))
                    s2.log_q = np.asarray(env_array(env, "lq2", (N,)))
                r = ScriptedRng(choices=[[0] * M])
                s2.resample(b1, n_samples=size, rng=r)
                return {"p": r.p_seen[0]}

            ctx.validate({"p": p}, runner)

        return h

    def to_cex(self, fl):
        if fl["cfg"].get("kind") == "loop":
            return _Loop09().to_cex(fl)
        cfg = fl["cfg"]
        env = fl["env"]
        N = cfg["N"]
        M = cfg["size"] if cfg["size"] is not None else N
        idx = []
        for k in range(M):
            v = env.get(f"idx_g1_{k}")
            idx.append(int(round(v)) if v is not None else 0)
        return {
            "cfg": cfg,
            "label": fl["label"],
            "x": env_array(env, "x", (N, 2)),
            "ll": env_array(env, "ll", (N,)),
            "lp": env_array(env, "lp", (N,)),
            "lq": env_array(env, "lq", (N,)),
            "idx": idx,
            "ll2": env_array(env, "ll2", (N,)),
            "lp2": env_array(env, "lp2", (N,)),
            "lq2": env_array(env, "lq2", (N,)),
        }

    def replay(self, cex):
        if cex["cfg"].get("kind") == "loop":
            return _Loop09().replay(cex)
        from aspire.samples import SMCSamples

        cfg = cex["cfg"]
        N, b0, b1, size = cfg["N"], cfg["b0"], cfg["b1"], cfg["size"]
        M = size if size is not None else N
        x = np.asarray(cex["x"], float)
        # make rows distinguishable so that a mis-indexed field is visible
        ll, lp, lq = (np.asarray(cex[k], float) for k in ("ll", "lp", "lq"))
        bad = []
        with np.errstate(all="ignore"):
            s = SMCSamples(x=x, log_likelihood=ll, log_prior=lp, log_q=lq, beta=b0, parameters=list(PARAMS2))
            # the precision of the set (a non-default width) must survive resampling
            s32 = SMCSamples(x=x, log_likelihood=ll, log_prior=lp, log_q=lq, beta=b0, parameters=list(PARAMS2), dtype=np.float32)
            if b1 != b0 or size is not None:
                o32 = s32.resample(b1, n_samples=size, rng=ScriptedRng(choices=[[0] * M]))
                if o32.x.dtype != np.float32 or o32.log_likelihood.dtype != np.float32 or np.dtype(o32.dtype) != np.float32:
                    bad.append(f"float32 population resampled to {o32.x.dtype}")
            if cfg.get("reassign"):
                s.log_weights(b1)
                s.log_evidence_ratio(b1)
                ll, lp, lq = (np.asarray(cex[k], float) for k in ("ll2", "lp2", "lq2"))
                if np.all(ll == 0) and np.all(lp == 0) and np.all(lq == 0):
                    ll = np.arange(N, dtype=float) * 1.7
                s.log_likelihood, s.log_prior, s.log_q = ll, lp, lq
            idx = [int(i) % N for i in cex["idx"]][:M]
            idx += [0] * (M - len(idx))
            r = ScriptedRng(choices=[idx])
            out = s.resample(b1, n_samples=size, rng=r)
            if b1 == b0 and size is None:
                return (out is not s, "resample at the same temperature did not return the population unchanged" if out is not s else "ok")
            if len(r.p_seen) != 1:
                return True, "generator not called exactly once"
            p = r.p_seen[0]
            w = np.exp((b1 - b0) * (ll + lp - lq) - np.max((b1 - b0) * (ll + lp - lq)))
            want = w / w.sum()
            if p.shape != want.shape or np.max(np.abs(p - want)) > 1e-9:
                bad.append(f"probability vector {p.tolist()} expected {want.tolist()}")
            if abs(float(np.sum(p)) - 1) > 1e-9:
                bad.append("probability vector not normalised")
            if len(out) != M:
                bad.append(f"size {len(out)} expected {M}")
            else:
                for k, j in enumerate(idx):
                    if not (
                        np.array_equal(out.x[k], x[j])
                        and out.log_likelihood[k] == ll[j]
                        and out.log_prior[k] == lp[j]
                        and out.log_q[k] == lq[j]
                    ):
                        bad.append(f"row {k} is not a copy of source row {j}")
            if out.beta != b1:
                bad.append(f"beta {out.beta} expected {b1}")
            if out.parameters != PARAMS2:
                bad.append("parameters lost")
        return (len(bad) > 0, "; ".join(bad[:3]) if bad else "all C09 clauses hold on this input")


def _np_pop(env, N, d, b0):
    from aspire.samples import SMCSamples

    return SMCSamples(
        x=np.asarray(env_array(env, "x", (N, d))),
        log_likelihood=np.asarray(env_array(env, "ll", (N,))),
        log_prior=np.asarray(env_array(env, "lp", (N,))),
        log_q=np.asarray(env_array(env, "lq", (N,))),
        beta=b0,
    )


if __name__ == "__main__":
    raise SystemExit(main(C09()))
