"""Recompile a function from its *current* source with logging statements and
logging-only conditionals removed (DESIGN 2.2).

`SMCSampler.sample` contains `if eff < 0.1: logger.warning(...)`, a branch
with no effect on state that would double the number of paths per iteration,
and f-string formatting of symbolic values.  The copy is regenerated from
/repo's source on every run; the pass refuses to remove an `if` whose test is
not a side-effect-free comparison of names/constants/attributes.  Log output
is outside every claim."""

from __future__ import annotations

import ast
import inspect
import textwrap


def _is_log_call(node):
    return (
        isinstance(node, ast.Expr)
        and isinstance(node.value, ast.Call)
        and isinstance(node.value.func, ast.Attribute)
        and isinstance(node.value.func.value, ast.Name)
        and node.value.func.value.id == "logger"
    )


def _pure_test(node):
    ok = (ast.Compare, ast.Name, ast.Constant, ast.Attribute, ast.Load, ast.BoolOp, ast.And, ast.Or, ast.Lt, ast.Gt, ast.LtE, ast.GtE, ast.Eq, ast.NotEq)
    return all(isinstance(n, ok) for n in ast.walk(node))


class _Strip(ast.NodeTransformer):
    def __init__(self):
        self.removed = []

    def _filter(self, body):
        out = []
        for st in body:
            if _is_log_call(st):
                self.removed.append(("log", st.lineno))
                continue
            if isinstance(st, ast.If) and not st.orelse and all(_is_log_call(b) for b in st.body):
                if not _pure_test(st.test):
                    raise ValueError(f"refusing to remove a logging-only `if` with an impure test at line {st.lineno}")
                self.removed.append(("if-log", st.lineno))
                continue
            out.append(st)
        return out or [ast.Pass()]

    def generic_visit(self, node):
        super().generic_visit(node)
        for field in ("body", "orelse", "finalbody"):
            b = getattr(node, field, None)
            if isinstance(b, list) and b and isinstance(b[0], ast.stmt):
                setattr(node, field, self._filter(b))
        return node


def strip_logging(fn, extra_globals=None):
    """Return (new_function, removed) compiled from fn's current source."""
    raw = getattr(fn, "__wrapped__", fn)
    raw = getattr(raw, "__func__", raw)
    src = textwrap.dedent(inspect.getsource(raw))
    tree = ast.parse(src)
    fdef = tree.body[0]
    fdef.decorator_list = []
    tr = _Strip()
    tr.visit(tree)
    ast.fix_missing_locations(tree)
    g = dict(raw.__globals__)
    if extra_globals:
        g.update(extra_globals)
    code = compile(tree, filename=inspect.getsourcefile(raw) or "<stripped>", mode="exec")
    ns: dict = {}
    exec(code, g, ns)
    new = ns[fdef.name]
    new.__stripped_from__ = raw
    return new, tr.removed
