"""C11 -- resuming from any checkpoint reproduces the uninterrupted run
(loop harness, two runs per path; DESIGN 6/C11)."""

from harness.common import main
from harness.loop_base import LoopCheck


class C11(LoopCheck):
    pid = "C11"
    props = {"C11"}
    flows = ("resume",)
    thorough_schedules = ["fixed1", "fixed2", "fixed4", "adaptive_half"]
    adaptive_N3 = ("adaptive_half",)
    required_labels = ["c11/resume/ladder", "c11/resume/history_len", "c11/resume/evidence", "c11/resume_constructor/ladder", "c11/resume_constructor/evidence"]

    def configs(self, tier):
        out = super().configs(tier)
        kept = []
        for c in out:
            c["routes"] = ["bytes", "live_dict", "dict_twice"] if tier == "quick" else ["bytes", "dict", "dict_twice", "live_dict", "file"]
            if c["schedule"] == "fixed2" and not c["n_final"]:
                c["routes"] = c["routes"] + ["live_after_fault"]
            if c["schedule"].startswith("adaptive") and tier != "quick":
                # N = 3 adaptive runs are expensive: bytes / live-dict routes only,
                # without the final-enlargement variant
                if c["n_final"]:
                    continue
                c["routes"] = ["bytes", "live_dict"]
            kept.append(c)
        out = kept
        # the resume-from-file constructor: real Aspire.sample_posterior writes
        # config / flow / checkpoints to a real HDF5 file; Aspire.resume_from_file
        # rebuilds the instance and sample_posterior continues the run
        for sched in (["fixed2"] if tier == "quick" else ["fixed2", "fixed4", "adaptive_half"]):
            out.append({"name": f"resume_file-{sched}", "flow": "resume_file", "schedule": sched, "n_final": False, "sampler": "MiniPCNSMC",
                        "N": 2, "d": 1, "T": 4 if sched == "fixed4" else 2, "D": 4, "timeout_ms": 120000, "all_crash_points": tier != "quick"})
        if tier == "quick":
            extra = dict(out[1])
            extra["routes"] = ["dict", "file"]
            extra["name"] += "-dict-file"
            out.append(extra)
        return out

    def finding_of(self, cex):
        info = cex.get("_info") or {}
        cfg = cex["cfg"]
        if cfg["schedule"] in ("adaptive_cap2", "adaptive_cap3") and "ladder" in str(cex.get("label", "")):
            ref = info.get("betas")
            if any(r.get("iteration", 0) >= 1 and r.get("betas") != ref for r in info.get("resumed", [])):
                return "C11-D6"
        return None

    def known_finding_probes(self):
        from harness.common import load_findings

        return [(f["id"], f["replay"]) for f in load_findings() if f["id"] == "C11-D6"]


if __name__ == "__main__":
    raise SystemExit(main(C11()))
