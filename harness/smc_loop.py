"""The SMC loop harness (shared by C06, C08, C10, C11, C12, C17, C18, C20).

Real code executed symbolically (DESIGN 6/C08): MCMCSampler.draw_initial_samples,
SMCSamples.from_samples, Sampler.fit_preconditioning_transform, the
logging-stripped SMCSampler.sample, determine_beta, SMCSamples.log_weights /
log_evidence_ratio / log_evidence_ratio_variance / resample /
to_standard_samples / __getitem__, Sampler.log_likelihood,
build_checkpoint_state, _checkpoint_extra_state, serialize_checkpoint,
restore_from_checkpoint, default_file_checkpoint_callback,
MiniPCNSMC.sample/mutate/log_prob and EmceeSMC.sample/mutate over fake kernel
modules.

Symbolic: initial coordinates, every kernel output, every resample index
vector, the user functions L, PI and the proposal density Q (uninterpreted).
"""

from __future__ import annotations

import os
import pickle
import sys
import tempfile
import types

import numpy as np

from harness.common import core, sx, z3
from harness.striplog import strip_logging
from harness.stubs import FlowStub, InjectedFault, SymRng, Target, UserFns


class _Stop(Exception):
    pass


# ---------------------------------------------------------------------------
# fake kernel packages (the real ones are not installed in this sandbox)

KERNEL_LOG = {"rng_constructed": [], "samplers": []}


class _KHistory:
    def __init__(self, acc):
        self.acceptance_rate = acc


class FakeMiniPCNSampler:
    """minipcn.Sampler stand-in: calls the target it was given on the start
    positions, consumes randomness from the generator it was given, and
    returns a chain whose last state is fresh symbolic coordinates keyed by
    the generator state (a kernel may return any positions)."""

    def __init__(self, log_prob_fn, step_fn=None, rng=None, dims=None, target_acceptance_rate=None, xp=None):
        self.log_prob_fn = log_prob_fn
        self.rng = rng
        self.dims = dims
        self.xp = xp
        KERNEL_LOG["samplers"].append(self)

    def sample(self, z, n_steps=None):
        env = LOOP.current
        env.on_kernel(self, z, n_steps)
        lp0 = self.log_prob_fn(z)
        env.kernel_targets.append((z, lp0))
        tag = self.rng._next() if hasattr(self.rng, "_next") else f"nogen{len(env.kernel_inputs)}"
        n = sx.asarray(z).shape[0]
        new = sx.sym(f"mx_{tag}", (n, self.dims))
        chain = [sx.asarray(z), new]
        return chain, _KHistory([0.25, 0.5])


class FakeEnsembleSampler:
    def __init__(self, nwalkers, ndim, log_prob_fn, args=(), vectorize=False, moves=None):
        self.nwalkers, self.ndim = nwalkers, ndim
        self.log_prob_fn, self.args = log_prob_fn, args
        self.acceptance_fraction = np.array([0.25, 0.5])
        KERNEL_LOG["samplers"].append(self)

    def run_mcmc(self, z, nsteps=None, progress=False, **kw):
        env = LOOP.current
        env.on_kernel(self, z, nsteps)
        lp0 = self.log_prob_fn(z, *self.args)
        env.kernel_targets.append((z, lp0))
        rng = env.sampler.rng
        tag = rng._next() if hasattr(rng, "_next") else f"nogen{len(env.kernel_inputs)}"
        self._new = sx.sym(f"mx_{tag}", (self.nwalkers, self.ndim))

    def get_autocorr_time(self, quiet=True, discard=0):
        return np.array([1.0])

    def get_chain(self, flat=False, discard=0):
        class _C:
            def __init__(s, new):
                s.new = new

            def __getitem__(s, key):
                return s.new

        return _C(self._new)


class FakeArrayRNG(SymRng):
    """orng.ArrayRNG stand-in.  The k-th generator constructed within ONE run
    always starts in the same state (as a generator with a default seed does):
    two runs of the same program are then comparable; C20 separately records
    that a generator was constructed at all."""

    def __init__(self, backend=None, **kw):
        KERNEL_LOG["rng_constructed"].append(self)
        env = LOOP.current
        env.n_rng_constructed = getattr(env, "n_rng_constructed", 0) + 1
        super().__init__(env.ctx, stream="fresh", counter=1000 * env.n_rng_constructed)


def install_fake_kernels():
    m = types.ModuleType("minipcn")
    m.Sampler = FakeMiniPCNSampler
    sys.modules["minipcn"] = m
    o = types.ModuleType("orng")
    o.ArrayRNG = FakeArrayRNG
    sys.modules["orng"] = o
    e = types.ModuleType("emcee")
    e.EnsembleSampler = FakeEnsembleSampler
    sys.modules["emcee"] = e


class _Loop:
    current = None


LOOP = _Loop()


# ---------------------------------------------------------------------------
# one run of the real sampler


SCHEDULES = {
    "fixed1": dict(adaptive=False, n_steps=1),
    "fixed2": dict(adaptive=False, n_steps=2),
    "fixed4": dict(adaptive=False, n_steps=4),
    "fixed4_cap2": dict(adaptive=False, n_steps=4, max_n_steps=2),
    "adaptive_half": dict(adaptive=True, min_step=0.5),
    "adaptive_cap2": dict(adaptive=True, max_n_steps=2),
    "adaptive_cap3": dict(adaptive=True, max_n_steps=3),
    "adaptive_free": dict(adaptive=True),
}


ADAPTIVE_TARGET_N2 = 0.75


def schedule_kwargs(name, N):
    """sample() keyword arguments of a named schedule for N particles."""
    kw = dict(SCHEDULES[name])
    if kw.get("adaptive") and N == 2 and name == "adaptive_half":
        # with two particles ESS/N >= 1/2 always: the default target 0.5 would make
        # every adaptive run a single full step.  Only for the schedule whose floor
        # of 1/2 bounds the run at two iterations: with the step-cap / unbounded
        # schedules the non-degenerate target multiplies the bisection paths of three
        # iterations (one such configuration ran past four minutes alone) -- those keep
        # the default target and rely on N = 3 in the thorough tier for non-degeneracy
        kw.setdefault("target_efficiency", ADAPTIVE_TARGET_N2)
    return kw


class RunEnv:
    """Everything one execution of sampler.sample() touches."""

    def __init__(self, ctx, cfg, fns, tag="ref", rng=None, props=(), max_iter=None):
        self.ctx = ctx
        self.cfg = cfg
        self.tag = tag
        self.props = set(props)
        self.d = cfg.get("d", 1)
        self.N = cfg["N"]
        self.fns = fns
        self.target = Target(ctx, self.d, fns, check_c17="C17" in self.props)
        self.flow = FlowStub(ctx, self.d, fns, tag="q" if tag == "ref" else f"q{tag}_")
        self.rng = rng if rng is not None else SymRng(ctx, stream="g", counter=0)
        self.kernel_inputs = []
        self.kernel_targets = []
        self.checkpoints = []  # (iteration at callback, beta, bytes, live state summary)
        self.max_iter = max_iter if max_iter is not None else cfg.get("T", 2)
        self.sampler = None
        self.final = None
        self.exception = None
        self.stopped = False

    def on_kernel(self, kernel, z, n_steps):
        self.kernel_inputs.append((sx.asarray(z), n_steps))
        if len(self.kernel_inputs) > self.max_iter + (1 if self.cfg.get("n_final") else 0):
            raise _Stop()

    def build(self, sampler_name="MiniPCNSMC", rng_via="sample"):
        from harness.c05 import get_sampler_class

        S = get_sampler_class(sampler_name)
        kw = {}
        if rng_via == "ctor" and sampler_name != "EmceeSMC":
            kw["rng"] = self.rng
        params = [f"p{k}" for k in range(self.d)]
        if self.cfg.get("precond") == "logit":
            # the real bounded-to-unbounded preconditioning (symbolic bounds);
            # the initial draws are assumed inside the bounds, outside the margin
            import aspire.transforms as T

            lo, hi = sx.sym("plo", self.d), sx.sym("phi", self.d)
            for a, b in zip(sx.terms(lo), sx.terms(hi)):
                self.ctx.add_assume(a < b)
            self.bounds = (lo, hi)
            kw["preconditioning_transform"] = T.CompositeTransform(
                parameters=params,
                prior_bounds={p: [lo[k], hi[k]] for k, p in enumerate(params)},
                bounded_to_unbounded=True,
                bounded_transform="logit",
                affine_transform=False,
                xp=sx,
            )
            self.flow.on_draw = self._assume_inside
        if self.cfg.get("dtype"):
            # C15: the precision the user requests, as a string or as a dtype object
            kw["dtype"] = sx.float32 if self.cfg["dtype"] == "obj32" else self.cfg["dtype"]
        pt = None
        if sampler_name == "EmceeSMC" and "preconditioning_transform" in kw:
            # NumpySMCSampler re-instantiates the transform on numpy; the harness keeps
            # the same transform class and settings on the symbolic namespace instead
            pt = kw.pop("preconditioning_transform")
        self.sampler = S(
            log_likelihood=self.target.log_likelihood,
            log_prior=self.target.log_prior,
            dims=self.d,
            prior_flow=self.flow,
            xp=sx,
            parameters=params,
            **kw,
        )
        if pt is not None:
            self.sampler.preconditioning_transform = pt
        if sampler_name == "EmceeSMC":
            self.sampler.rng = self.rng
        self.sampler_name = sampler_name
        self.rng_via = rng_via
        return self.sampler

    def _assume_inside(self, x):
        lo, hi = self.bounds
        L, H = sx.terms(lo), sx.terms(hi)
        eps = 1e-6
        for i in range(x.shape[0]):
            for k, t in enumerate(sx.terms(x[i])):
                w = H[k] - L[k]
                self.ctx.add_assume(z3.And(t >= L[k] + core.rv(eps) * w, t <= L[k] + core.rv(1.0 - eps) * w))

    def sample_kwargs(self):
        cfg = self.cfg
        kw = schedule_kwargs(cfg["schedule"], self.N)
        if cfg.get("n_final"):
            kw["n_final_samples"] = self.N + 1
        if self.sampler_name == "MiniPCNSMC":
            kw["sampler_kwargs"] = {"n_steps": 1}
            if self.rng_via == "sample":
                kw["rng"] = self.rng
        else:
            kw["sampler_kwargs"] = {"nsteps": 1, "progress": False}
            kw.pop("min_step", None)
            kw.pop("max_n_steps", None)
        return kw

    def run(self, resume_from=None, checkpoint=None, checkpoint_every=None, checkpoint_file=None):
        LOOP.current = self
        kw = self.sample_kwargs()
        if checkpoint == "callback":
            kw["checkpoint_callback"] = self._callback
        if checkpoint_every is not None:
            kw["checkpoint_every"] = checkpoint_every
        if checkpoint_file is not None:
            kw["checkpoint_file_path"] = checkpoint_file
        if resume_from is not None:
            kw["resume_from"] = resume_from
        self.kwargs_used = kw
        try:
            self.final = self.sampler.sample(getattr(self, "N_arg", self.N), **kw)
        except _Stop:
            self.stopped = True
        except InjectedFault as e:
            self.exception = e
        return self

    def _callback(self, state):
        smp = self.sampler
        blob = smp.serialize_checkpoint(state)
        self.checkpoints.append(
            {
                "iteration": state.get("iteration"),
                "beta": state.get("meta", {}).get("beta"),
                "bytes": blob,
                "live_state": state,
                "n_beta": len(state["history"].beta),
                "n_acc": len(state["history"].mcmc_acceptance),
                "n_hist": len(state["history"].sample_history),
                "samples_x": sx.terms(state["samples"].x),
                "samples_ll": sx.terms(state["samples"].log_likelihood),
                "samples_lp": sx.terms(state["samples"].log_prior),
                "samples_lq": sx.terms(state["samples"].log_q),
                "rng_state": state.get("rng_state"),
                "n_ll_points": self.target.n_points,
            }
        )


_patched = {}


def patch_sample_loop():
    """Replace SMCSampler.sample by its logging-stripped copy compiled from the
    current source (regenerated on every run)."""
    from aspire.samplers.smc.base import SMCSampler

    if "orig" not in _patched:
        _patched["orig"] = SMCSampler.__dict__["sample"]
        fn, removed = strip_logging(SMCSampler.sample)
        _patched["fn"] = fn
        _patched["removed"] = removed
    SMCSampler.sample = _patched["fn"]
    return _patched["removed"]


def unpatch_sample_loop():
    from aspire.samplers.smc.base import SMCSampler

    if "orig" in _patched:
        SMCSampler.sample = _patched["orig"]


# ---------------------------------------------------------------------------
# specification helpers


def pop_w(fns, pop):
    """(L + PI - Q)(x_i) for each row of a population, recomputed from the
    coordinates with the uninterpreted functions."""
    out = []
    for i in range(pop.x.shape[0]):
        r = sx.terms(pop.x[i])
        out.append(fns.L(*r) + fns.PI(*r) - fns.Q(*r))
    return out


def omegas(w, b0, b1):
    from fractions import Fraction

    q = Fraction(b1) - Fraction(b0)
    return [sx.term(sx.exp(sx.asarray(q * sx.asarray(wi)))) for wi in w]


def eq_terms(ctx, a, b, label, detail=None):
    a, b = list(a), list(b)
    if len(a) != len(b):
        ctx.prove(False, label, detail={"len_a": len(a), "len_b": len(b), **(detail or {})})
        return False
    ok = True
    for k, (p, q) in enumerate(zip(a, b)):
        ok = ctx.prove(p == q, label, detail={"cell": k, **(detail or {})}) and ok
    return ok
