"""C13 (partial) -- saved sample sets, histories, transforms and configurations
reload unchanged.

What is decided: the object rebuilt by the real `load` from what the real `save`
wrote equals the saved one, for ALL values:
* transforms (CompositeTransform with every combination of periodic / logit /
  probit / affine parts, FlowTransform, AffineTransform): same settings, bounds
  and fitted state, and the SAME MAP -- forward and inverse, value and
  log-Jacobian, for all bounds lower < upper, all fitted affine states and all
  points;
* sample sets (BaseSamples / Samples / SMCSamples, flat and nested layout, with
  and without the optional fields): every cell of every field, parameter names
  (in a non-alphabetical order), namespace, precision, temperature, evidence;
* SMC histories: every series in order, and every stored population (also with
  twelve of them: HDF5 hands group names back sorted as strings);
* an Aspire instance rebuilt by the real `Aspire.resume_from_file` from what
  `save_config` wrote: same settings, for all prior bounds.

How: the real save/load code (save/load/_save_state/_load_state/config_dict of the
transforms, BaseSamples.save/load/_encode_for_hdf5/_decode_from_dictionary/to_dict/
from_dict, History/SMCHistory.save/load, utils.recursively_save_to_h5_file,
load_from_h5_file, encode_for_hdf5, decode_from_hdf5, encode/decode_dtype,
encode/decode_samples) runs against a hybrid container (sx/h5model.py): a REAL
in-memory h5py file for everything concrete -- names, groups, attributes,
strings, booleans, lists, iteration order, name collisions -- and a side table
for array payloads that contain symbolic cells.

Stubs: h5py returns a float array as stored; the sample classes' conversion to
NumPy before saving is the identity on symbolic arrays (value preservation of
that conversion is C15's matter).

Outside (not decidable by this technique): what h5py / torch / equinox do to
concrete array payloads (float width on disk, string encodings), flows and
neural-network weights."""

from __future__ import annotations

import itertools

import numpy as np

from harness.c04 import _rows
from harness.common import Check, core, main, sx, z3
from harness.util import env_array
from sx import h5model

EPS13 = 1e-3  # a non-default clipping margin: dropping it on save shows
# not in alphabetical order: HDF5 hands names back sorted, the parameter order must survive
PARAMS = ["zed", "alpha", "mid"]


def _terms_equal(ctx, a, b, label, detail=None):
    ta, tb = sx.terms(sx.asarray(a)), sx.terms(sx.asarray(b))
    if not ctx.prove(len(ta) == len(tb), label, detail={**(detail or {}), "len_saved": len(ta), "len_loaded": len(tb)}):
        return
    for k, (p, q) in enumerate(zip(ta, tb)):
        ctx.prove(p == q, label, detail={**(detail or {}), "cell": k})


class C13(Check):
    pid = "C13"
    required_labels = ["c13/transform/settings", "c13/transform/bounds", "c13/transform/fitted_state", "c13/transform/same_forward", "c13/transform/same_inverse", "c13/config/settings", "c13/config/bounds", "c13/samples", "c13/history/series", "c13/history/populations"]
    stubs = [
        "HDF5 -> hybrid container: a real in-memory h5py file (core driver) for every concrete value, group, attribute and name; array payloads with symbolic cells are kept in a side table behind a zero placeholder of the same shape and float width (assumption: h5py returns a float array as it was stored)",
        "erf / erfinv, math constants, x % w as in C04",
        "Aspire route: utils.AspireFile -> the hybrid file; the proposal is the loop harness's FlowStub (its save writes a marker group)",
        "sample classes: the conversion to NumPy that precedes saving (array_api_compat.numpy inside BaseSamples.to_numpy, samples.to_numpy) is the identity on symbolic arrays",
    ]
    outside = [
        "what h5py / torch / equinox do to concrete array payloads; neural-network weights of the flows",
        "flows and their network weights (torch / equinox serialisation)",
        "infinite prior bounds; torch / jax namespaces",
    ]
    bounds = {"quick": {"d": 2, "batch": 1}, "thorough": {"d": [2, 3], "batch": 2}}

    def configs(self, tier):
        out = []
        d = 2
        for per, bnd, aff in itertools.product([False, True], ["logit", "probit", None], [False, True]):
            if not per and bnd is None and not aff:
                continue
            out.append({"name": f"transform-{'per' if per else 'noper'}-{bnd or 'off'}-{'aff' if aff else 'noaff'}", "kind": "transform", "cls": "CompositeTransform", "periodic": per, "bounded": bnd, "affine": aff, "d": d, "batch": 1, "points": "inside", "timeout_ms": 60000})
        for bnd in ("logit", "probit"):
            # points anywhere between the bounds, clipping margin included
            out.append({"name": f"transform-anywhere-{bnd}", "kind": "transform", "cls": "CompositeTransform", "periodic": False, "bounded": bnd, "affine": False, "d": 1, "batch": 1, "points": "anywhere", "timeout_ms": 60000})
            out.append({"name": f"flowtransform-{bnd}", "kind": "transform", "cls": "FlowTransform", "periodic": False, "bounded": bnd, "affine": True, "d": d, "batch": 1, "points": "inside", "timeout_ms": 60000})
        out.append({"name": "affine-alone", "kind": "affine", "d": d, "batch": 1})
        # sample sets and histories (conversion to NumPy stubbed as the identity, see module doc)
        for cls, subs in (("BaseSamples", ["all", "ll", "none"]), ("Samples", ["all", "none"]), ("SMCSamples", ["all", "none"])):
            for sub in subs:
                for flat in (False, True):
                    if flat and sub != "all":
                        continue
                    out.append({"name": f"samples-{cls}-{sub}-{'flat' if flat else 'nested'}", "kind": "samples", "cls": cls, "subset": sub, "flat": flat, "N": 2, "d": 2})
        for K in (2, 3, 12):
            out.append({"name": f"history-K{K}", "kind": "history", "K": K, "N": 1, "d": 2})
        # one-row sample sets, and a model parameter named like a field of the class
        out.append({"name": "samples-SMCSamples-all-nested-onerow", "kind": "samples", "cls": "SMCSamples", "subset": "all", "flat": False, "N": 1, "d": 2})
        out.append({"name": "samples-Samples-none-nested-onerow", "kind": "samples", "cls": "Samples", "subset": "none", "flat": False, "N": 1, "d": 2})
        out.append({"name": "samples-SMCSamples-all-nested-fieldname", "kind": "samples", "cls": "SMCSamples", "subset": "all", "flat": False, "N": 2, "d": 2, "params": ["beta", "alpha"]})
        out.append({"name": "history-no-populations", "kind": "history", "K": 0, "N": 1, "d": 2})
        for per in (False, True):
            out.append({"name": f"aspire-config-{'per' if per else 'noper'}", "kind": "config", "periodic": per, "d": d})
        out.append({"name": "aspire-config-flow-options", "kind": "config", "periodic": False, "d": d, "flow_kwargs": {"seed": 7, "hidden_features": [8, 8]}})
        if tier == "thorough":
            for c in list(out):
                if c["kind"] == "transform" and c["points"] == "inside" and c["cls"] == "CompositeTransform":
                    c2 = dict(c)
                    c2.update(d=3, batch=2, name=c["name"] + "-d3")
                    out.append(c2)
        return out

    def ctx_for(self, cfg, seed):
        return sx.Ctx(self.pid, D=1, seed=seed, timeout_ms=cfg.get("timeout_ms", 60000))

    def harness(self, cfg):
        return getattr(self, "h_" + cfg["kind"])(cfg)

    # ------------------------------------------------------------------
    def _build(self, ctx, cfg, T, xp_mod):
        d = cfg["d"]
        lo, hi = sx.sym("lo", d), sx.sym("hi", d)
        for a, b in zip(sx.terms(lo), sx.terms(hi)):
            ctx.add_assume(a < b)
        params = PARAMS[:d]
        kw = dict(
            parameters=params,
            prior_bounds={p: [lo[k], hi[k]] for k, p in enumerate(params)},
            bounded_to_unbounded=cfg["bounded"] is not None,
            bounded_transform=cfg["bounded"] or "logit",
            xp=xp_mod,
            eps=EPS13,
            dtype="float32",
        )
        if cfg["cls"] == "CompositeTransform":
            kw.update(periodic_parameters=[PARAMS[0]] if cfg["periodic"] else [], affine_transform=cfg["affine"])
        return getattr(T, cfg["cls"])(**kw), lo, hi, params

    def h_transform(self, cfg):
        import aspire.transforms as T

        d, b = cfg["d"], cfg["batch"]

        def h(ctx):
            tr, lo, hi, params = self._build(ctx, cfg, T, sx)
            if tr.affine_transform:
                mu, sg = sx.sym("mu", d), sx.sym("sg", d)
                for t in sx.terms(sg):
                    ctx.add_assume(t > 0)
                tr._affine_transform.fit(sx.stack([mu - sg, mu + sg]))
            f = h5model.new_file()
            try:
                try:
                    tr.save(f, "data_transform")
                    t2 = T.BaseTransform.load(f, "data_transform")
                except (core.PathCut, core.Infeasible, core.Inconclusive, core.HarnessError):
                    raise
                except Exception as e:  # noqa: BLE001
                    ctx.prove(False, "c13/transform/roundtrip_raises", detail={"exception": repr(e)})
                    return
            finally:
                h5model.close_file(f)
            self.compare_transforms(ctx, cfg, tr, t2, lo, hi)

        return h

    def compare_transforms(self, ctx, cfg, tr, t2, lo, hi):
        d, b = cfg["d"], cfg["batch"]
        L, H = sx.terms(lo), sx.terms(hi)
        ctx.prove(type(t2) is type(tr), "c13/transform/settings", detail={"what": "class", "loaded": type(t2).__name__})
        for name in ("parameters", "periodic_parameters", "bounded_to_unbounded", "bounded_transform", "affine_transform", "eps", "dtype", "device", "bounded_parameters"):
            a, c = getattr(tr, name, None), getattr(t2, name, None)
            ctx.prove(bool(a == c), "c13/transform/settings", detail={"what": name, "saved": repr(a), "loaded": repr(c)})
        ctx.prove(t2.xp is tr.xp, "c13/transform/settings", detail={"what": "namespace"})
        pb1, pb2 = tr.prior_bounds or {}, t2.prior_bounds or {}
        if ctx.prove(list(pb1) == list(pb2), "c13/transform/bounds", detail={"saved": list(pb1), "loaded": list(pb2)}):
            for p in pb1:
                _terms_equal(ctx, pb1[p], pb2[p], "c13/transform/bounds", {"parameter": p})
                ctx.prove(sx.asarray(pb2[p]).dtype == sx.asarray(pb1[p]).dtype, "c13/transform/bounds", detail={"parameter": p, "what": "precision"})
        if tr.affine_transform:
            a1, a2 = tr._affine_transform, t2._affine_transform
            if ctx.prove(a2 is not None and getattr(a2, "_mean", None) is not None, "c13/transform/fitted_state", detail={"what": "present"}):
                _terms_equal(ctx, a1._mean, a2._mean, "c13/transform/fitted_state", {"what": "mean"})
                _terms_equal(ctx, a1._std, a2._std, "c13/transform/fitted_state", {"what": "std"})
        else:
            ctx.reach("c13/transform/fitted_state")
        # the same map: value and log-Jacobian, both directions
        x = sx.sym("x", (b, d))
        for r in _rows(x):
            for k, t in enumerate(r):
                w = H[k] - L[k]
                if cfg["points"] == "inside":
                    ctx.add_assume(z3.And(t >= L[k] + core.rv(EPS13) * w, t <= L[k] + core.rv(1.0 - EPS13) * w))
                else:
                    ctx.add_assume(z3.And(t >= L[k], t <= H[k]))
        y1, j1 = tr.forward(x)
        y2, j2 = t2.forward(x)
        _terms_equal(ctx, y1, y2, "c13/transform/same_forward", {"what": "value"})
        _terms_equal(ctx, j1, j2, "c13/transform/same_forward", {"what": "log_jacobian"})
        if cfg["points"] == "inside":
            z = sx.sym("z", (b, d))
            if cfg.get("periodic"):
                ctx.add_assume(z3.And(sx.term(z[0, 0]) >= L[0], sx.term(z[0, 0]) < H[0]))
            x1, i1 = tr.inverse(z)
            x2, i2 = t2.inverse(z)
            _terms_equal(ctx, x1, x2, "c13/transform/same_inverse", {"what": "value"})
            _terms_equal(ctx, i1, i2, "c13/transform/same_inverse", {"what": "log_jacobian"})
        else:
            ctx.reach("c13/transform/same_inverse")

    def h_affine(self, cfg):
        import aspire.transforms as T

        d = cfg["d"]

        def h(ctx):
            tr = T.AffineTransform(xp=sx, dtype="float32")
            mu, sg = sx.sym("mu", d), sx.sym("sg", d)
            for t in sx.terms(sg):
                ctx.add_assume(t > 0)
            tr.fit(sx.stack([mu - sg, mu + sg]))
            f = h5model.new_file()
            try:
                tr.save(f, "affine")
                t2 = T.BaseTransform.load(f, "affine")
            finally:
                h5model.close_file(f)
            ctx.prove(type(t2) is T.AffineTransform and t2.dtype == tr.dtype and t2.xp is sx, "c13/transform/settings", detail={"loaded": type(t2).__name__, "dtype": repr(t2.dtype)})
            _terms_equal(ctx, tr._mean, t2._mean, "c13/transform/fitted_state", {"what": "mean"})
            _terms_equal(ctx, tr._std, t2._std, "c13/transform/fitted_state", {"what": "std"})
            x = sx.sym("x", (1, d))
            y1, j1 = tr.forward(x)
            y2, j2 = t2.forward(x)
            _terms_equal(ctx, y1, y2, "c13/transform/same_forward", {"what": "value"})
            _terms_equal(ctx, j1, j2, "c13/transform/same_forward", {"what": "log_jacobian"})
            x1, i1 = tr.inverse(x)
            x2, i2 = t2.inverse(x)
            _terms_equal(ctx, x1, x2, "c13/transform/same_inverse", {"what": "value"})
            _terms_equal(ctx, i1, i2, "c13/transform/same_inverse", {"what": "log_jacobian"})

        return h

    # ------------------------------------------------------------------
    def h_samples(self, cfg):
        import aspire.samples as S

        N, d, sub, cls_name, flat = cfg["N"], cfg["d"], cfg["subset"], cfg["cls"], cfg["flat"]

        def h(ctx):
            with numpy_is_identity():
                s, ev = make_samples(S, cls_name, sub, N, d, sx, params=cfg.get("params"))
                f = h5model.new_file()
                try:
                    try:
                        s.save(f, "samples", flat=flat)
                        s2 = getattr(S, cls_name).load(f, "samples")
                    except (core.PathCut, core.Infeasible, core.Inconclusive, core.HarnessError):
                        raise
                    except Exception as e:  # noqa: BLE001
                        ctx.prove(False, "c13/samples/roundtrip_raises", detail={"exception": repr(e)})
                        return
                finally:
                    h5model.close_file(f)
            compare_samples(ctx, s, s2, ev, "c13/samples")

        return h

    def h_history(self, cfg):
        import aspire.history as Hm
        import aspire.samples as S

        K, N, d = cfg["K"], cfg["N"], cfg["d"]

        def h(ctx):
            with numpy_is_identity():
                hist = Hm.SMCHistory()
                series = ("log_norm_ratio", "log_norm_ratio_var", "beta", "ess", "ess_target", "eff_target", "mcmc_acceptance")
                n_it = max(K - 1, 1)  # K = 2 populations: a single-iteration run, every series has ONE entry
                vals = {}
                for name in series:
                    vals[name] = [sx.sym(f"{name}_{t}") for t in range(n_it)] if name != "beta" else [(t + 1) / n_it for t in range(n_it)]
                    setattr(hist, name, list(vals[name]))
                pops = []
                for t in range(K):
                    pops.append(S.SMCSamples(x=sx.sym(f"px{t}", (N, d)), log_likelihood=sx.sym(f"pl{t}", N), log_prior=sx.sym(f"pp{t}", N), log_q=sx.sym(f"pq{t}", N),
                                             parameters=PARAMS[:d], xp=sx, beta=t / max(K - 1, 1), dtype="float32"))
                hist.sample_history = list(pops)
                f = h5model.new_file()
                try:
                    try:
                        hist.save(f, "smc_history")
                        h2 = Hm.SMCHistory.load(f, "smc_history")
                    except (core.PathCut, core.Infeasible, core.Inconclusive, core.HarnessError):
                        raise
                    except Exception as e:  # noqa: BLE001
                        ctx.prove(False, "c13/history/roundtrip_raises", detail={"exception": repr(e)})
                        return
                finally:
                    h5model.close_file(f)
            for name in series:
                got = getattr(h2, name, None)
                if isinstance(got, sx.Array) and got.ndim == 0 or not hasattr(got, "__len__"):
                    # a series must come back as a series, also when it has one entry
                    ctx.prove(False, "c13/history/series", detail={"series": name, "loaded": repr(got), "saved_entries": len(vals[name])})
                    continue
                if not ctx.prove(len(got) == len(vals[name]), "c13/history/series", detail={"series": name, "len": len(got), "saved": len(vals[name])}):
                    continue
                for t in range(len(vals[name])):
                    a, b = vals[name][t], got[t]
                    ta = sx.term(a) if isinstance(a, sx.Array) else core.rv(float(a))
                    tb = sx.term(sx.asarray(b)) if isinstance(b, sx.Array) else core.rv(float(b))
                    ctx.prove(ta == tb, "c13/history/series", detail={"series": name, "entry": t})
            if ctx.prove(len(h2.sample_history) == K, "c13/history/populations", detail={"loaded": len(h2.sample_history), "saved": K}):
                for t in range(K):
                    compare_samples(ctx, pops[t], h2.sample_history[t], None, "c13/history/populations", {"population": t})
            else:
                ctx.reach("c13/history/populations")

        return h

    # ------------------------------------------------------------------
    def h_config(self, cfg):
        d = cfg["d"]

        def h(ctx):
            import array_api_compat.numpy as anp

            import aspire.aspire as A
            from aspire.aspire import Aspire
            from harness.stubs import FlowStub, UserFns

            lo, hi = sx.sym("lo", d), sx.sym("hi", d)
            for a_, b_ in zip(sx.terms(lo), sx.terms(hi)):
                ctx.add_assume(a_ < b_)
            params = PARAMS[:d]
            fns = UserFns(d)
            flow = FlowStub(ctx, d, fns, tag="c13")
            f = h5model.new_file()
            old = (A.AspireFile, A.get_flow_wrapper)
            A.AspireFile = lambda path, mode="r": f
            A.get_flow_wrapper = lambda backend="zuko", flow_matching=False: (FlowStub, sx)
            try:
                settings = dict(
                    dims=d,
                    parameters=params,
                    periodic_parameters=[PARAMS[1]] if cfg["periodic"] else None,
                    prior_bounds={p: [lo[k], hi[k]] for k, p in enumerate(params)},
                    bounded_to_unbounded=False,
                    bounded_transform="probit",
                    flow_backend="flowjax",
                    eps=EPS13,
                    xp=anp,
                    dtype="float32",
                    **dict(cfg.get("flow_kwargs") or {}),  # flow options are the constructor's extra keywords
                )
                a = Aspire(log_likelihood=_ll, log_prior=_lp, flow=flow, **settings)
                try:
                    a.save_config(f, include_sampler_config=False)
                    a.save_flow(f)
                    b = Aspire.resume_from_file("hybrid.h5", log_likelihood=_ll, log_prior=_lp)
                except (core.PathCut, core.Infeasible, core.Inconclusive, core.HarnessError):
                    raise
                except Exception as e:  # noqa: BLE001
                    ctx.prove(False, "c13/config/roundtrip_raises", detail={"exception": repr(e)})
                    return
            finally:
                A.AspireFile, A.get_flow_wrapper = old
                h5model.close_file(f)
            for name in ("dims", "parameters", "periodic_parameters", "bounded_to_unbounded", "bounded_transform", "flow_matching", "flow_backend", "flow_kwargs", "eps", "device", "dtype"):
                u, v = getattr(a, name, None), getattr(b, name, None)
                if name == "dtype":
                    u, v = _dtype_name(u), _dtype_name(v)
                ctx.prove(_same_setting(u, v), "c13/config/settings", detail={"what": name, "saved": repr(u), "rebuilt": repr(v)})
            ctx.prove(_xp_name(b.xp) == _xp_name(a.xp), "c13/config/settings", detail={"what": "namespace", "rebuilt": repr(b.xp)})
            pb1, pb2 = a.prior_bounds or {}, b.prior_bounds or {}
            if ctx.prove(sorted(pb1) == sorted(pb2), "c13/config/bounds", detail={"saved": sorted(pb1), "rebuilt": sorted(pb2)}):
                for p in pb1:
                    _terms_equal(ctx, sx.stack([sx.asarray(v) for v in pb1[p]]) if isinstance(pb1[p], (list, tuple)) else pb1[p], pb2[p], "c13/config/bounds", {"parameter": p})

        return h

    # ------------------------------------------------------------------
    def to_cex(self, fl):
        env = {k: v for k, v in fl["env"].items() if k != "__purified__" and "!" not in k}
        return {"cfg": fl["cfg"], "label": fl["label"], "detail": fl.get("detail"), "env": env}

    def replay(self, cex):
        return replay_c13(cex)


import contextlib


@contextlib.contextmanager
def numpy_is_identity():
    """Stub for the sample classes' save path, which converts to NumPy first: the
    conversion is value-preserving (C15's matter), so here it is the identity on
    symbolic arrays -- `array_api_compat.numpy` (imported inside BaseSamples.to_numpy)
    and samples.to_numpy are redirected for the duration of the round trip."""
    import array_api_compat

    import aspire.samples as S

    real_np, real_to_numpy = array_api_compat.numpy, S.to_numpy
    array_api_compat.numpy = sx
    S.to_numpy = lambda x, **k: x if isinstance(x, sx.Array) else real_to_numpy(x, **k)
    try:
        yield
    finally:
        array_api_compat.numpy = real_np
        S.to_numpy = real_to_numpy


def make_samples(S, cls_name, sub, N, d, xp, rs=None, params=None):
    """A sample set of the given class with every cell distinct (symbolic, or random
    concrete for the replay); returns (object, planted evidence or None)."""
    sym = rs is None
    mk = (lambda name, shape: sx.sym(name, shape)) if sym else (lambda name, shape: rs.normal(size=shape))
    kw = {
        "log_likelihood": mk("ll", N) if sub in ("all", "ll") else None,
        "log_prior": mk("lp", N) if sub == "all" else None,
        "log_q": mk("lq", N) if sub == "all" else None,
    }
    if cls_name == "SMCSamples":
        kw["beta"] = 0.25
    s = getattr(S, cls_name)(x=mk("x", (N, d)), parameters=list(params or PARAMS[:d]), xp=xp, dtype="float32", **kw)
    ev = None
    if cls_name == "SMCSamples" or (cls_name == "Samples" and sub != "all"):
        if sym:
            s.log_evidence, s.log_evidence_error = sx.sym("carriedZ"), sx.sym("carriedE")
            ev = (z3.Real("carriedZ"), z3.Real("carriedE"))
        else:
            s.log_evidence, s.log_evidence_error = np.float32(12.5), np.float32(0.75)
            ev = (12.5, 0.75)
    return s, ev


def compare_samples(ctx, s, s2, ev, label, detail=None):
    detail = detail or {}
    ctx.prove(type(s2) is type(s), label, detail={**detail, "what": "class", "loaded": type(s2).__name__})
    ctx.prove(s2.parameters == s.parameters, label, detail={**detail, "what": "parameters", "loaded": s2.parameters})
    ctx.prove(s2.xp is s.xp, label, detail={**detail, "what": "namespace"})
    ctx.prove(s2.dtype == s.dtype and s2.x.dtype == s.x.dtype, label, detail={**detail, "what": "dtype", "loaded": repr(s2.dtype)})
    if ctx.prove(tuple(s2.x.shape) == tuple(s.x.shape), label, detail={**detail, "what": "shape", "loaded": list(s2.x.shape)}):
        _terms_equal(ctx, s.x, s2.x, label, {**detail, "field": "x"})
    for f in ("log_likelihood", "log_prior", "log_q"):
        a, b = getattr(s, f), getattr(s2, f)
        if a is None:
            ctx.prove(b is None, label, detail={**detail, "field": f, "expected": "absent"})
        elif ctx.prove(b is not None, label, detail={**detail, "field": f, "expected": "present"}):
            _terms_equal(ctx, a, b, label, {**detail, "field": f})
    if hasattr(s, "beta"):
        b2 = getattr(s2, "beta", None)
        ctx.prove(b2 is not None and bool(float(b2) == float(s.beta)), label, detail={**detail, "what": "beta", "loaded": repr(b2)})
    if ev is not None:
        z, e = s2.log_evidence, s2.log_evidence_error
        if ctx.prove(z is not None and e is not None, label, detail={**detail, "what": "evidence present"}):
            ctx.prove(z3.And(sx.term(sx.asarray(z)) == ev[0], sx.term(sx.asarray(e)) == ev[1]), label, detail={**detail, "what": "evidence value"})
    elif type(s).__name__ == "Samples" and getattr(s, "log_w", None) is not None:
        _terms_equal(ctx, s.log_w, s2.log_w, label, {**detail, "field": "log_w"})
        ctx.prove(sx.term(sx.asarray(s2.log_evidence)) == sx.term(sx.asarray(s.log_evidence)), label, detail={**detail, "what": "evidence of the weights"})


def _ll(s):
    return 0.0


def _lp(s):
    return 0.0


def _dtype_name(dt):
    if dt is None:
        return None
    return str(getattr(dt, "name", None) or getattr(dt, "__name__", None) or dt).split(".")[-1]


def _xp_name(xp):
    return None if xp is None else getattr(xp, "__name__", str(xp)).removeprefix("array_api_compat.")


def _same_setting(u, v):
    """Observational equality of two settings: HDF5 hands lists back as arrays and
    python numbers as NumPy scalars, which is not a difference."""
    if isinstance(u, dict) or isinstance(v, dict):
        u, v = dict(u or {}), dict(v or {})
        return sorted(u) == sorted(v) and all(_same_setting(u[k], v[k]) for k in u)
    if isinstance(u, (list, tuple, np.ndarray)) or isinstance(v, (list, tuple, np.ndarray)):
        a = list(u) if u is not None else []
        b = list(v) if v is not None else []
        return len(a) == len(b) and all(_same_setting(p, q) for p, q in zip(a, b))
    if isinstance(u, (bytes, np.bytes_)):
        u = u.decode()
    if isinstance(v, (bytes, np.bytes_)):
        v = v.decode()
    try:
        return bool(u == v)
    except Exception:  # noqa: BLE001
        return False


# ---------------------------------------------------------------------------
# replay on NumPy through a real in-memory h5py file


def replay_c13(cex):
    import h5py

    import aspire.transforms as T

    cfg = cex["cfg"]
    env = cex.get("env", {})
    d = cfg["d"]
    bad = []
    lo = np.asarray(env_array(env, "lo", (d,)))
    hi = np.asarray(env_array(env, "hi", (d,), default=1.0))
    if np.any(hi <= lo) or not np.all(np.isfinite(lo + hi)):
        lo, hi = np.zeros(d), 1.0 + np.arange(d, dtype=float)
    rs = np.random.default_rng(7)
    with np.errstate(all="ignore"), h5py.File("c13-replay.h5", "w", driver="core", backing_store=False) as f:
        if cfg["kind"] == "config":
            return _replay_config(cfg, lo, hi, f)
        if cfg["kind"] in ("samples", "history"):
            return _replay_samples(cfg, f, rs)
        params = PARAMS[:d]
        if cfg["kind"] == "affine":
            tr = T.AffineTransform(xp=np, dtype="float32")
            tr.fit(rs.normal(size=(8, d)) * 3 + 1)
        else:
            kw = dict(parameters=params, prior_bounds={p: [lo[k], hi[k]] for k, p in enumerate(params)}, bounded_to_unbounded=cfg["bounded"] is not None,
                      bounded_transform=cfg["bounded"] or "logit", xp=np, eps=EPS13, dtype="float32")
            if cfg["cls"] == "CompositeTransform":
                kw.update(periodic_parameters=[PARAMS[0]] if cfg["periodic"] else [], affine_transform=cfg["affine"])
            tr = getattr(T, cfg["cls"])(**kw)
            data = (lo + (hi - lo) * rs.uniform(0.2, 0.8, size=(8, d))).astype(np.float32)
            tr.fit(data)
        try:
            tr.save(f, "t")
            t2 = T.BaseTransform.load(f, "t")
        except Exception as e:  # noqa: BLE001
            return True, f"C13: save/load of {type(tr).__name__} raised {type(e).__name__}: {e}"
        if type(t2) is not type(tr):
            bad.append(f"reloaded as {type(t2).__name__}")
        for name in ("parameters", "periodic_parameters", "bounded_to_unbounded", "bounded_transform", "affine_transform", "eps", "dtype", "device", "bounded_parameters"):
            a, c = getattr(tr, name, None), getattr(t2, name, None)
            if not _same_setting(a, c):
                bad.append(f"setting {name}: saved {a!r}, reloaded {c!r}")
        if cfg["kind"] == "transform":
            for p in tr.prior_bounds or {}:
                u, v = np.asarray(tr.prior_bounds[p]), np.asarray((t2.prior_bounds or {}).get(p, np.nan))
                if u.shape != v.shape or not np.array_equal(u, v) or u.dtype != v.dtype:
                    bad.append(f"bounds of {p}: saved {u!r}, reloaded {v!r}")
        # the same map on points between the bounds, some inside the clipping margin
        if cfg["kind"] == "affine":
            x = rs.normal(size=(6, d)).astype(np.float32)
        else:
            u = rs.uniform(0.05, 0.95, size=(6, d))
            u[0] = 0.3 * EPS13
            u[1] = 1 - 0.3 * EPS13
            u[2] = 1e-5
            x = (lo + (hi - lo) * u).astype(np.float32)
        y1, j1 = tr.forward(x.copy())
        y2, j2 = t2.forward(x.copy())
        if not (np.array_equal(np.asarray(y1), np.asarray(y2), equal_nan=True) and np.array_equal(np.asarray(j1), np.asarray(j2), equal_nan=True)):
            bad.append("the reloaded transform's forward map differs from the saved one's")
        z = rs.normal(size=(6, d)).astype(np.float32)
        if cfg.get("periodic"):
            z[:, 0] = x[:, 0]
        x1, i1 = tr.inverse(z.copy())
        x2, i2 = t2.inverse(z.copy())
        if not (np.array_equal(np.asarray(x1), np.asarray(x2), equal_nan=True) and np.array_equal(np.asarray(i1), np.asarray(i2), equal_nan=True)):
            bad.append("the reloaded transform's inverse map differs from the saved one's")
    return (len(bad) > 0, "C13: " + "; ".join(bad[:3]) if bad else "the reloaded object equals the saved one on this input")


def _np_same(s, s2, what, bad):
    if type(s2) is not type(s):
        bad.append(f"{what}: reloaded as {type(s2).__name__}")
        return
    if s2.parameters != s.parameters:
        bad.append(f"{what}: parameters {s2.parameters} instead of {s.parameters}")
    if np.dtype(s2.dtype) != np.dtype(s.dtype) or np.asarray(s2.x).dtype != np.asarray(s.x).dtype:
        bad.append(f"{what}: precision {s2.dtype} / {np.asarray(s2.x).dtype} instead of {s.dtype}")
    if _xp_name(s2.xp) != _xp_name(s.xp):
        bad.append(f"{what}: namespace {s2.xp!r}")
    for f_ in ("x", "log_likelihood", "log_prior", "log_q"):
        a, b = getattr(s, f_), getattr(s2, f_)
        if (a is None) != (b is None):
            bad.append(f"{what}: field {f_} {'appeared' if a is None else 'was dropped'}")
        elif a is not None and (np.asarray(a).shape != np.asarray(b).shape or not np.array_equal(np.asarray(a), np.asarray(b))):
            bad.append(f"{what}: values of {f_} changed")
    if hasattr(s, "beta") and (getattr(s2, "beta", None) is None or float(s2.beta) != float(s.beta)):
        bad.append(f"{what}: temperature {getattr(s2, 'beta', None)!r} instead of {s.beta!r}")
    if getattr(s, "log_evidence", None) is not None:
        if getattr(s2, "log_evidence", None) is None or abs(float(s2.log_evidence) - float(s.log_evidence)) > 1e-5 * max(1.0, abs(float(s.log_evidence))):
            bad.append(f"{what}: evidence {getattr(s2, 'log_evidence', None)!r} instead of {s.log_evidence!r}")


def _replay_samples(cfg, f, rs):
    import aspire.history as Hm
    import aspire.samples as S

    bad = []
    if cfg["kind"] == "samples":
        s, _ = make_samples(S, cfg["cls"], cfg["subset"], cfg["N"], cfg["d"], np, rs=rs, params=cfg.get("params"))
        try:
            s.save(f, "samples", flat=cfg["flat"])
            s2 = getattr(S, cfg["cls"]).load(f, "samples")
        except Exception as e:  # noqa: BLE001
            return True, f"C13: save/load of {cfg['cls']} raised {type(e).__name__}: {e}"
        _np_same(s, s2, cfg["cls"], bad)
    else:
        K, N, d = cfg["K"], cfg["N"], cfg["d"]
        hist = Hm.SMCHistory()
        series = ("log_norm_ratio", "log_norm_ratio_var", "beta", "ess", "ess_target", "eff_target", "mcmc_acceptance")
        n_it = max(K - 1, 1)  # K = 2 populations: a single-iteration run, every series has ONE entry
        for name in series:
            setattr(hist, name, [float(v) for v in rs.normal(size=n_it)] if name != "beta" else [(t + 1) / n_it for t in range(n_it)])
        pops = [S.SMCSamples(x=rs.normal(size=(N, d)), log_likelihood=rs.normal(size=N), log_prior=rs.normal(size=N), log_q=rs.normal(size=N), parameters=PARAMS[:d], beta=t / max(K - 1, 1), dtype="float32") for t in range(K)]
        hist.sample_history = list(pops)
        try:
            hist.save(f, "smc_history")
            h2 = Hm.SMCHistory.load(f, "smc_history")
        except Exception as e:  # noqa: BLE001
            return True, f"C13: save/load of an SMC history with {K} populations raised {type(e).__name__}: {e}"
        for name in series:
            a, b = getattr(hist, name), getattr(h2, name, None)
            if b is None or not hasattr(b, "__len__") or np.ndim(b) == 0:
                bad.append(f"history series {name} with {len(a)} entries reloaded as {b!r}")
            elif len(a) != len(b) or not np.array_equal(np.asarray(a, float), np.asarray(b, float)):
                bad.append(f"history series {name} changed: {np.asarray(b).tolist()} instead of {a}")
        if len(h2.sample_history) != K:
            bad.append(f"{len(h2.sample_history)} stored populations reloaded, {K} saved")
        else:
            for t in range(K):
                _np_same(pops[t], h2.sample_history[t], f"population {t} of {K}", bad)
    return (len(bad) > 0, "C13: " + "; ".join(bad[:3]) if bad else "the reloaded object equals the saved one on this input")


def _replay_config(cfg, lo, hi, f):
    import aspire.aspire as A
    from aspire.aspire import Aspire

    d = cfg["d"]
    params = PARAMS[:d]
    bad = []

    class Flow:
        xp = np

        def __init__(self, *a, **k):
            pass

        def save(self, h5_file, path="flow"):
            h5_file.create_group(path)

        @classmethod
        def load(cls, h5_file, path="flow"):
            return cls()

    class _F:
        def __init__(self, real):
            self.real = real

        def __enter__(self):
            return self.real

        def __exit__(self, *a):
            return False

    old = (A.AspireFile, A.get_flow_wrapper)
    A.AspireFile = lambda path, mode="r": _F(f)
    A.get_flow_wrapper = lambda backend="zuko", flow_matching=False: (Flow, np)
    try:
        a = Aspire(log_likelihood=_ll, log_prior=_lp, flow=Flow(), dims=d, parameters=params, periodic_parameters=[PARAMS[1]] if cfg["periodic"] else None,
                   prior_bounds={p: [float(lo[k]), float(hi[k])] for k, p in enumerate(params)}, bounded_to_unbounded=False, bounded_transform="probit",
                   flow_backend="flowjax", eps=EPS13, xp=np, dtype="float32", **dict(cfg.get("flow_kwargs") or {}))
        try:
            a.save_config(f, include_sampler_config=False)
            a.save_flow(f)
            b = Aspire.resume_from_file("x.h5", log_likelihood=_ll, log_prior=_lp)
        except Exception as e:  # noqa: BLE001
            return True, f"C13: configuration round trip raised {type(e).__name__}: {e}"
    finally:
        A.AspireFile, A.get_flow_wrapper = old
    for name in ("dims", "parameters", "periodic_parameters", "bounded_to_unbounded", "bounded_transform", "flow_matching", "flow_backend", "flow_kwargs", "eps", "device", "dtype"):
        u, v = getattr(a, name, None), getattr(b, name, None)
        if name == "dtype":
            u, v = _dtype_name(u), _dtype_name(v)
        if not _same_setting(u, v):
            bad.append(f"setting {name}: saved {u!r}, rebuilt {v!r}")
    if _xp_name(b.xp) != _xp_name(a.xp):
        bad.append(f"namespace: rebuilt {b.xp!r}")
    for p in a.prior_bounds or {}:
        u, v = np.asarray(a.prior_bounds[p], float), np.asarray((b.prior_bounds or {}).get(p, np.nan), float)
        if u.shape != v.shape or not np.array_equal(u, v):
            bad.append(f"prior bounds of {p}: saved {u.tolist()}, rebuilt {v.tolist()}")
    return (len(bad) > 0, "C13: " + "; ".join(bad[:3]) if bad else "the rebuilt instance has the saved settings")


if __name__ == "__main__":
    raise SystemExit(main(C13()))
