"""C17 -- prior is evaluated before likelihood on the same points; evaluations
are counted (loop harness over whole SMC runs and resumed runs, plus
function-level configurations for the importance sampler and
Aspire.convert_to_samples; the two kernel targets are covered by the C05
harness, which poses the same obligations through the shared Target stub)."""

from harness.common import core, main, sx, z3
from harness.loop_base import LoopCheck
from harness.loop_checks import check_population
from harness.stubs import FlowStub, Target, UserFns


class C17(LoopCheck):
    pid = "C17"
    props = {"C17"}
    flows = ("plain", "resume")
    adaptive_N3 = ()
    required_labels = ["c17/prior_attached", "c17/prior_of_same_points", "c17/count", "c17/count@resumed", "c17/count@resumed_after_fault", "c17/importance_count", "c17/convert_weights", "c17/mcmc_count"]

    def configs(self, tier):
        out = super().configs(tier)
        # a fault at every likelihood call of a run that checkpoints to a file, then a
        # resume from that file in a fresh sampler: what the resumed sampler reports
        for c in list(out):
            if c["flow"] == "resume" and c["schedule"] == "fixed2" and not c["n_final"] and c["sampler"] == "MiniPCNSMC":
                c2 = dict(c)
                c2.update(routes=["file"], name=c["name"] + "-crashpoints")
                out.append(c2)
        for n in ([2] if tier == "quick" else [2, 3]):
            out.append({"name": f"importance-N{n}", "kind": "importance", "flow": "fn", "N": n, "d": 2, "D": 1})
            out.append({"name": f"convert-N{n}", "kind": "convert", "flow": "fn", "N": n, "d": 2, "D": 1})
        # the plain MCMC samplers (flow-initialised ensemble / pCN chains) over fake kernels:
        # every likelihood call -- initial population, kernel target, evidence draws of
        # Emcee, final re-evaluation -- sees the prior of its points and is counted
        for smp in ("Emcee", "MiniPCN"):
            out.append({"name": f"mcmc-{smp}-N2", "kind": "mcmc", "flow": "fn", "sampler": smp, "N": 2, "d": 1, "D": 1})
        # FP sort: the prior may be -inf / NaN per point, so the multi-round
        # initial draw (rejection, concatenation, trimming) and the
        # all-points-outside-the-prior case of the kernel targets are reachable
        out.append({"name": "initial-fp-n2-d1", "kind": "initial_fp", "N": 2, "d": 1, "rounds": 3, "flow": "initial_fp", "check_c17": True, "timeout_ms": 120000})
        for smp in ("SMCSampler", "MCMCSampler", "BlackJAXSMC"):
            out.append({"name": f"fp-target-{smp}", "kind": "fp_target", "flow": "fp_target", "sampler": smp, "batch": 2, "d": 1})
        return out

    def ctx_for(self, cfg, seed):
        if cfg.get("kind") in ("importance", "convert", "mcmc"):
            return sx.Ctx(self.pid, D=1, seed=seed, timeout_ms=60000)
        if cfg.get("kind") in ("initial_fp", "fp_target"):
            return sx.Ctx(self.pid, seed=seed, timeout_ms=120000, sort="F", fp_bits=64)
        return super().ctx_for(cfg, seed)

    def h_fp_target(self, cfg):
        from harness.c05 import get_sampler_class

        b, d, sname = cfg["batch"], cfg["d"], cfg["sampler"]

        def h(ctx):
            S = sx.OPS.sort
            fns = UserFns(d, sort=S)
            tgt = Target(ctx, d, fns, check_c17=True)

            class Flow:
                def log_prob(self, x):
                    return fns.apply(fns.Q, x)

            class Tr:
                xp = sx
                dtype = None

                def inverse(self, z):
                    return z, sx.sym("lj", len(z))

                def fit(self, x):
                    return x

            smp = get_sampler_class(sname)(log_likelihood=tgt.log_likelihood, log_prior=tgt.log_prior, dims=d, prior_flow=Flow(), xp=sx, preconditioning_transform=Tr())
            z = sx.sym("z", (b, d))
            if sname == "MCMCSampler":
                smp.log_prob(z)
            else:
                beta = sx.sym("beta")
                ctx.add_assume(z3.And(z3.fpGT(sx.term(beta), sx.OPS.const(0.0)), z3.fpLEQ(sx.term(beta), sx.OPS.const(1.0))))
                smp.log_prob(z, beta)
            ctx.prove(smp.n_likelihood_evaluations == tgt.n_points, "c17/count", detail={"reported": smp.n_likelihood_evaluations, "asked": tgt.n_points})

        return h

    def harness(self, cfg):
        if cfg.get("kind") == "initial_fp":
            from harness.c10 import C10

            return C10().h_initial(cfg)
        if cfg.get("kind") == "fp_target":
            return self.h_fp_target(cfg)
        if cfg.get("kind") == "importance":
            return self.h_importance(cfg)
        if cfg.get("kind") == "convert":
            return self.h_convert(cfg)
        if cfg.get("kind") == "mcmc":
            return self.h_mcmc(cfg)
        return super().harness(cfg)

    def h_mcmc(self, cfg):
        import sys
        import types

        import numpy as np

        n, d, sname = cfg["N"], cfg["d"], cfg["sampler"]

        def h(ctx):
            import aspire.samplers.mcmc as M

            fns = UserFns(d)
            tgt = Target(ctx, d, fns)
            flow = FlowStub(ctx, d, fns)
            calls = {"kernel_targets": 0}

            class FakeEnsemble:
                def __init__(self, nwalkers, ndim, log_prob_fn=None, vectorize=False, **kw):
                    self.nw, self.nd, self.f = nwalkers, ndim, log_prob_fn

                def run_mcmc(self, z0, nsteps=None, **kw):
                    self.f(z0)
                    self.f(sx.sym("prop", (self.nw, self.nd)))
                    calls["kernel_targets"] += 2

                def get_chain(self, flat=False, discard=0):
                    return sx.sym("chain", (self.nw, self.nd))

            class _H:
                acceptance_rate = [0.5]

            class FakePCN:
                def __init__(self, log_prob_fn=None, step_fn=None, rng=None, dims=None, target_acceptance_rate=None, **kw):
                    self.f, self.nd = log_prob_fn, dims

                def sample(self, z0, n_steps=None):
                    self.f(z0)
                    calls["kernel_targets"] += 1
                    m = sx.asarray(z0).shape[0]
                    return sx.sym("chain", (2, m, self.nd)), _H()

            old = {k: sys.modules.get(k) for k in ("emcee", "minipcn")}
            e = types.ModuleType("emcee")
            e.EnsembleSampler = FakeEnsemble
            p = types.ModuleType("minipcn")
            p.Sampler = FakePCN
            sys.modules["emcee"], sys.modules["minipcn"] = e, p
            try:
                S = getattr(M, sname)
                smp = S(log_likelihood=tgt.log_likelihood, log_prior=tgt.log_prior, dims=d, prior_flow=flow, xp=sx, parameters=[f"p{k}" for k in range(d)])
                out = smp.sample(n, nsteps=1) if sname == "Emcee" else smp.sample(n, n_steps=1, rng=object())
            finally:
                for k, v in old.items():
                    if v is None:
                        sys.modules.pop(k, None)
                    else:
                        sys.modules[k] = v
            ctx.prove(calls["kernel_targets"] >= 1, "c17/mcmc_kernel_ran")
            ctx.prove(smp.n_likelihood_evaluations == tgt.n_points, "c17/mcmc_count", detail={"sampler": sname, "reported": smp.n_likelihood_evaluations, "asked": tgt.n_points})
            check_population(ctx, fns, out, "c17/mcmc_fields", need_q=False)

        return h

    def h_importance(self, cfg):
        from aspire.samplers.importance import ImportanceSampler

        n, d = cfg["N"], cfg["d"]

        def h(ctx):
            fns = UserFns(d)
            tgt = Target(ctx, d, fns)
            flow = FlowStub(ctx, d, fns)
            smp = ImportanceSampler(log_likelihood=tgt.log_likelihood, log_prior=tgt.log_prior, dims=d, prior_flow=flow, xp=sx, parameters=[f"p{k}" for k in range(d)])
            out = smp.sample(n)
            ctx.prove(len(tgt.ll_calls) == 1 and tgt.n_points == n, "c17/importance_one_call")
            ctx.prove(smp.n_likelihood_evaluations == tgt.n_points, "c17/importance_count", detail={"reported": smp.n_likelihood_evaluations, "asked": tgt.n_points})
            check_population(ctx, fns, out, "c17/importance_fields")
            # the weights are those of these very points
            for i in range(n):
                r = sx.terms(out.x[i])
                ctx.prove(sx.terms(out.log_w)[i] == fns.L(*r) + fns.PI(*r) - fns.Q(*r), "c17/importance_weights")

        return h

    def h_convert(self, cfg):
        from aspire.aspire import Aspire

        n, d = cfg["N"], cfg["d"]

        def h(ctx):
            fns = UserFns(d)
            tgt = Target(ctx, d, fns)
            a = Aspire(log_likelihood=tgt.log_likelihood, log_prior=tgt.log_prior, dims=d, parameters=[f"p{k}" for k in range(d)], xp=sx)
            x = sx.sym("cx", (n, d))
            lq = fns.apply(fns.Q, x)
            out = a.convert_to_samples(x, log_q=lq, evaluate=True)
            ctx.prove(len(tgt.ll_calls) == 1 and tgt.n_points == n, "c17/convert_one_call")
            for i in range(n):
                r = sx.terms(out.x[i])
                ctx.prove(sx.terms(out.log_w)[i] == fns.L(*r) + fns.PI(*r) - fns.Q(*r), "c17/convert_weights")
            # a supplied prior is used as given and the likelihood still sees it
            tgt2 = Target(ctx, d, fns)
            a2 = Aspire(log_likelihood=tgt2.log_likelihood, log_prior=tgt2.log_prior, dims=d, parameters=[f"p{k}" for k in range(d)], xp=sx)
            out2 = a2.convert_to_samples(x, log_q=lq, log_prior=fns.apply(fns.PI, x), evaluate=True)
            ctx.prove(len(tgt2.lp_calls) == 0 and len(tgt2.ll_calls) == 1, "c17/convert_supplied_prior")

        return h

    def to_cex(self, fl):
        if fl["cfg"].get("kind") in ("initial_fp", "fp_target"):
            env = {k: v for k, v in fl["env"].items() if k != "__purified__"}
            return {"cfg": fl["cfg"], "label": fl["label"], "detail": fl.get("detail"), "env": env}
        if fl["cfg"].get("kind") in ("importance", "convert", "mcmc"):
            return {"cfg": fl["cfg"], "label": fl["label"], "detail": fl.get("detail"), "env": {}}
        return super().to_cex(fl)

    def replay(self, cex):
        if cex["cfg"].get("kind") == "initial_fp":
            return replay_initial_c17(cex)
        if cex["cfg"].get("kind") == "fp_target":
            return replay_fp_target(cex)
        if cex["cfg"].get("kind") in ("importance", "convert"):
            return replay_fn(cex)
        if cex["cfg"].get("kind") == "mcmc":
            return replay_mcmc(cex)
        return super().replay(cex)


def replay_mcmc(cex):
    """The real Emcee / MiniPCN samplers on NumPy over concrete fake kernels."""
    import sys
    import types

    import numpy as np

    import aspire.samplers.mcmc as M

    cfg = cex["cfg"]
    n, d, sname = cfg["N"], cfg["d"], cfg["sampler"]
    rs = np.random.default_rng(4)
    bad = []
    asked = {"n": 0}
    Lf = lambda x: -0.5 * np.sum((np.asarray(x) - 0.3) ** 2, axis=-1)  # noqa: E731
    Pf = lambda x: -0.7 * np.sum(np.abs(np.asarray(x)), axis=-1)  # noqa: E731
    Qf = lambda x: -0.25 * np.sum(np.asarray(x) ** 2, axis=-1) - 1.0  # noqa: E731

    def L(s):
        asked["n"] += len(s.x)
        if s.log_prior is None or len(np.asarray(s.log_prior)) != len(s.x) or not np.allclose(np.asarray(s.log_prior, float), Pf(s.x)):
            bad.append("C17: likelihood called without the prior of these points attached")
        return Lf(s.x)

    class Flow:
        xp = np

        def sample_and_log_prob(self, m):
            x = rs.normal(size=(m, d))
            return x, Qf(x)

        def log_prob(self, x):
            return Qf(x)

    class FakeEnsemble:
        def __init__(self, nwalkers, ndim, log_prob_fn=None, vectorize=False, **kw):
            self.nw, self.nd, self.f = nwalkers, ndim, log_prob_fn

        def run_mcmc(self, z0, nsteps=None, **kw):
            self.f(z0)
            self.f(rs.normal(size=(self.nw, self.nd)))

        def get_chain(self, flat=False, discard=0):
            return rs.normal(size=(self.nw, self.nd))

    class _H:
        acceptance_rate = [0.5]

    class FakePCN:
        def __init__(self, log_prob_fn=None, step_fn=None, rng=None, dims=None, target_acceptance_rate=None, **kw):
            self.f, self.nd = log_prob_fn, dims

        def sample(self, z0, n_steps=None):
            self.f(z0)
            return rs.normal(size=(2, len(z0), self.nd)), _H()

    old = {k: sys.modules.get(k) for k in ("emcee", "minipcn")}
    e = types.ModuleType("emcee")
    e.EnsembleSampler = FakeEnsemble
    p = types.ModuleType("minipcn")
    p.Sampler = FakePCN
    sys.modules["emcee"], sys.modules["minipcn"] = e, p
    try:
        with np.errstate(all="ignore"):
            smp = getattr(M, sname)(log_likelihood=L, log_prior=lambda s: Pf(s.x), dims=d, prior_flow=Flow(), xp=np, parameters=[f"p{k}" for k in range(d)])
            out = smp.sample(n, nsteps=1) if sname == "Emcee" else smp.sample(n, n_steps=1, rng=object())
    finally:
        for k, v in old.items():
            if v is None:
                sys.modules.pop(k, None)
            else:
                sys.modules[k] = v
    if smp.n_likelihood_evaluations != asked["n"]:
        bad.append(f"C17: {sname}: n_likelihood_evaluations={smp.n_likelihood_evaluations}, the likelihood was asked for {asked['n']} points")
    if not np.allclose(np.asarray(out.log_likelihood, float), Lf(out.x)) or not np.allclose(np.asarray(out.log_prior, float), Pf(out.x)):
        bad.append("C17: returned densities do not belong to the returned points")
    return (len(bad) > 0, "; ".join(bad[:3]) if bad else "all clauses hold")


def replay_fn(cex):
    import numpy as np

    from aspire.aspire import Aspire
    from aspire.samplers.importance import ImportanceSampler

    cfg = cex["cfg"]
    n, d = cfg["N"], cfg["d"]
    rs = np.random.default_rng(2)
    bad = []
    asked = {"n": 0}

    def Lf(x):
        return -0.5 * np.sum((np.asarray(x) - 0.3) ** 2, axis=-1)

    def Pf(x):
        return -0.7 * np.sum(np.abs(np.asarray(x)), axis=-1)

    def Qf(x):
        return -0.25 * np.sum(np.asarray(x) ** 2, axis=-1) - 1.0

    def L(s):
        asked["n"] += len(s.x)
        if s.log_prior is None or len(np.asarray(s.log_prior)) != len(s.x) or not np.allclose(np.asarray(s.log_prior, float), Pf(s.x)):
            bad.append("likelihood called without the prior of these points attached")
        return Lf(s.x)

    class Flow:
        def sample_and_log_prob(self, m):
            x = rs.normal(size=(m, d))
            return x, Qf(x)

        def log_prob(self, x):
            return Qf(x)

    with np.errstate(all="ignore"):
        if cfg["kind"] == "importance":
            smp = ImportanceSampler(log_likelihood=L, log_prior=lambda s: Pf(s.x), dims=d, prior_flow=Flow(), xp=np)
            out = smp.sample(n)
            if smp.n_likelihood_evaluations != asked["n"]:
                bad.append(f"n_likelihood_evaluations={smp.n_likelihood_evaluations}, asked for {asked['n']} points")
        else:
            a = Aspire(log_likelihood=L, log_prior=lambda s: Pf(s.x), dims=d, parameters=[f"p{k}" for k in range(d)], xp=np)
            x = rs.normal(size=(n, d))
            out = a.convert_to_samples(x, log_q=Qf(x), evaluate=True)
        want = Lf(out.x) + Pf(out.x) - Qf(out.x)
        if not np.allclose(np.asarray(out.log_w, float), want, rtol=0, atol=1e-12):
            bad.append("weights do not belong to the returned points")
    return (len(bad) > 0, "; ".join(bad[:3]) if bad else "all clauses hold")


def _mk(n, d):
    import numpy as np

    def Lf(x):
        return -0.5 * np.sum((np.asarray(x) - 0.3) ** 2, axis=-1)

    def Qf(x):
        return -0.25 * np.sum(np.asarray(x) ** 2, axis=-1) - 1.0

    return Lf, Qf


def replay_initial_c17(cex):
    """Multi-round initial draws on NumPy for every pattern of out-of-prior
    points in the first two rounds; the likelihood checks the prior it is handed."""
    import numpy as np

    from aspire.samplers.mcmc import MCMCSampler

    cfg = cex["cfg"]
    n, d = cfg["N"], cfg["d"]
    Lf, Qf = _mk(n, d)
    rs = np.random.Generator(np.random.PCG64(5))
    draws = [rs.normal(size=(2 * n, d)) + 10 * k for k in range(1, 9)]
    bad = []
    for pattern in range(2 ** (2 * n)):
        invalid = {(k, i) for k in range(2) for i in range(n) if (pattern >> (k * n + i)) & 1}
        state = {"k": 0, "asked": 0}
        lookup = {}

        def Pf(x):
            x = np.asarray(x)
            out = -np.sum(np.abs(x), axis=-1)
            for r, row in enumerate(x):
                if lookup.get(tuple(row)) in invalid:
                    out[r] = -np.inf
            return out

        class Flow:
            def sample_and_log_prob(self, m):
                k = state["k"]
                state["k"] += 1
                x = draws[k][:m].copy()
                for i, row in enumerate(x):
                    lookup[tuple(row)] = (k, i)
                return x, Qf(x)

        def L(s):
            state["asked"] += len(s.x)
            lp = s.log_prior
            if lp is None or len(np.asarray(lp)) != len(s.x) or not np.array_equal(np.asarray(lp, float), Pf(s.x)):
                bad.append(f"out-of-prior draws {sorted(invalid)}: the likelihood was handed a log_prior that is not the prior of these points")
            return Lf(s.x)

        smp = MCMCSampler(log_likelihood=L, log_prior=lambda s: Pf(s.x), dims=d, prior_flow=Flow(), xp=np)
        with np.errstate(all="ignore"):
            smp.draw_initial_samples(n)
        if smp.n_likelihood_evaluations != state["asked"]:
            bad.append(f"n_likelihood_evaluations={smp.n_likelihood_evaluations}, asked for {state['asked']} points")
        if bad:
            break
    return (len(bad) > 0, "; ".join(bad[:2]) if bad else "all clauses hold")


def replay_fp_target(cex):
    import numpy as np

    from harness.c05 import get_sampler_class

    cfg = cex["cfg"]
    b, d, sname = cfg["batch"], cfg["d"], cfg["sampler"]
    Lf, Qf = _mk(b, d)
    bad = []
    for pattern in range(2**b):
        asked = {"n": 0}
        out_of_prior = [(pattern >> i) & 1 for i in range(b)]

        def Pf(x):
            return np.array([-np.inf if out_of_prior[i] else -0.5 for i in range(len(x))])

        def L(s):
            asked["n"] += len(s.x)
            return Lf(s.x)

        class Flow:
            def log_prob(self, x):
                return Qf(x)

        class Tr:
            xp = np
            dtype = None

            def inverse(self, z):
                return z, np.zeros(len(z))

        smp = get_sampler_class(sname)(log_likelihood=L, log_prior=lambda s: Pf(s.x), dims=d, prior_flow=Flow(), xp=np, preconditioning_transform=Tr())
        z = np.arange(b * d, dtype=float).reshape(b, d)
        with np.errstate(all="ignore"):
            smp.log_prob(z) if sname == "MCMCSampler" else smp.log_prob(z, 0.5)
        if smp.n_likelihood_evaluations != asked["n"]:
            bad.append(f"out-of-prior pattern {out_of_prior}: n_likelihood_evaluations={smp.n_likelihood_evaluations}, the likelihood was asked for {asked['n']} points")
            break
    return (len(bad) > 0, "; ".join(bad) if bad else "count equals the points asked")


if __name__ == "__main__":
    raise SystemExit(main(C17()))
