from harness.common import main
from harness.loop_base import LoopCheck


class C17(LoopCheck):
    pid = "C17"
    props = {"C17"}
    flows = ("plain", "resume")
    required_labels = []


if __name__ == "__main__":
    raise SystemExit(main(C17()))
