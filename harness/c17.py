"""C17 -- prior is evaluated before likelihood on the same points; evaluations
are counted (loop harness over whole SMC runs and resumed runs, plus
function-level configurations for the importance sampler and
Aspire.convert_to_samples; the two kernel targets are covered by the C05
harness, which poses the same obligations through the shared Target stub)."""

from harness.common import core, main, sx, z3
from harness.loop_base import LoopCheck
from harness.loop_checks import check_population
from harness.stubs import FlowStub, Target, UserFns


class C17(LoopCheck):
    pid = "C17"
    props = {"C17"}
    flows = ("plain", "resume")
    adaptive_N3 = ()
    required_labels = ["c17/prior_attached", "c17/prior_of_same_points", "c17/count", "c17/importance_count", "c17/convert_weights"]

    def configs(self, tier):
        out = super().configs(tier)
        for n in ([2] if tier == "quick" else [2, 3]):
            out.append({"name": f"importance-N{n}", "kind": "importance", "flow": "fn", "N": n, "d": 2, "D": 1})
            out.append({"name": f"convert-N{n}", "kind": "convert", "flow": "fn", "N": n, "d": 2, "D": 1})
        return out

    def ctx_for(self, cfg, seed):
        if cfg.get("kind") in ("importance", "convert"):
            return sx.Ctx(self.pid, D=1, seed=seed, timeout_ms=60000)
        return super().ctx_for(cfg, seed)

    def harness(self, cfg):
        if cfg.get("kind") == "importance":
            return self.h_importance(cfg)
        if cfg.get("kind") == "convert":
            return self.h_convert(cfg)
        return super().harness(cfg)

    def h_importance(self, cfg):
        from aspire.samplers.importance import ImportanceSampler

        n, d = cfg["N"], cfg["d"]

        def h(ctx):
            fns = UserFns(d)
            tgt = Target(ctx, d, fns)
            flow = FlowStub(ctx, d, fns)
            smp = ImportanceSampler(log_likelihood=tgt.log_likelihood, log_prior=tgt.log_prior, dims=d, prior_flow=flow, xp=sx, parameters=[f"p{k}" for k in range(d)])
            out = smp.sample(n)
            ctx.prove(len(tgt.ll_calls) == 1 and tgt.n_points == n, "c17/importance_one_call")
            ctx.prove(smp.n_likelihood_evaluations == tgt.n_points, "c17/importance_count", detail={"reported": smp.n_likelihood_evaluations, "asked": tgt.n_points})
            check_population(ctx, fns, out, "c17/importance_fields")
            # the weights are those of these very points
            for i in range(n):
                r = sx.terms(out.x[i])
                ctx.prove(sx.terms(out.log_w)[i] == fns.L(*r) + fns.PI(*r) - fns.Q(*r), "c17/importance_weights")

        return h

    def h_convert(self, cfg):
        from aspire.aspire import Aspire

        n, d = cfg["N"], cfg["d"]

        def h(ctx):
            fns = UserFns(d)
            tgt = Target(ctx, d, fns)
            a = Aspire(log_likelihood=tgt.log_likelihood, log_prior=tgt.log_prior, dims=d, parameters=[f"p{k}" for k in range(d)], xp=sx)
            x = sx.sym("cx", (n, d))
            lq = fns.apply(fns.Q, x)
            out = a.convert_to_samples(x, log_q=lq, evaluate=True)
            ctx.prove(len(tgt.ll_calls) == 1 and tgt.n_points == n, "c17/convert_one_call")
            for i in range(n):
                r = sx.terms(out.x[i])
                ctx.prove(sx.terms(out.log_w)[i] == fns.L(*r) + fns.PI(*r) - fns.Q(*r), "c17/convert_weights")
            # a supplied prior is used as given and the likelihood still sees it
            tgt2 = Target(ctx, d, fns)
            a2 = Aspire(log_likelihood=tgt2.log_likelihood, log_prior=tgt2.log_prior, dims=d, parameters=[f"p{k}" for k in range(d)], xp=sx)
            out2 = a2.convert_to_samples(x, log_q=lq, log_prior=fns.apply(fns.PI, x), evaluate=True)
            ctx.prove(len(tgt2.lp_calls) == 0 and len(tgt2.ll_calls) == 1, "c17/convert_supplied_prior")

        return h

    def to_cex(self, fl):
        if fl["cfg"].get("kind") in ("importance", "convert"):
            return {"cfg": fl["cfg"], "label": fl["label"], "detail": fl.get("detail"), "env": {}}
        return super().to_cex(fl)

    def replay(self, cex):
        if cex["cfg"].get("kind") in ("importance", "convert"):
            return replay_fn(cex)
        return super().replay(cex)


def replay_fn(cex):
    import numpy as np

    from aspire.aspire import Aspire
    from aspire.samplers.importance import ImportanceSampler

    cfg = cex["cfg"]
    n, d = cfg["N"], cfg["d"]
    rs = np.random.default_rng(2)
    bad = []
    asked = {"n": 0}

    def Lf(x):
        return -0.5 * np.sum((np.asarray(x) - 0.3) ** 2, axis=-1)

    def Pf(x):
        return -0.7 * np.sum(np.abs(np.asarray(x)), axis=-1)

    def Qf(x):
        return -0.25 * np.sum(np.asarray(x) ** 2, axis=-1) - 1.0

    def L(s):
        asked["n"] += len(s.x)
        if s.log_prior is None or len(np.asarray(s.log_prior)) != len(s.x) or not np.allclose(np.asarray(s.log_prior, float), Pf(s.x)):
            bad.append("likelihood called without the prior of these points attached")
        return Lf(s.x)

    class Flow:
        def sample_and_log_prob(self, m):
            x = rs.normal(size=(m, d))
            return x, Qf(x)

        def log_prob(self, x):
            return Qf(x)

    with np.errstate(all="ignore"):
        if cfg["kind"] == "importance":
            smp = ImportanceSampler(log_likelihood=L, log_prior=lambda s: Pf(s.x), dims=d, prior_flow=Flow(), xp=np)
            out = smp.sample(n)
            if smp.n_likelihood_evaluations != asked["n"]:
                bad.append(f"n_likelihood_evaluations={smp.n_likelihood_evaluations}, asked for {asked['n']} points")
        else:
            a = Aspire(log_likelihood=L, log_prior=lambda s: Pf(s.x), dims=d, parameters=[f"p{k}" for k in range(d)], xp=np)
            x = rs.normal(size=(n, d))
            out = a.convert_to_samples(x, log_q=Qf(x), evaluate=True)
        want = Lf(out.x) + Pf(out.x) - Qf(out.x)
        if not np.allclose(np.asarray(out.log_w, float), want, rtol=0, atol=1e-12):
            bad.append("weights do not belong to the returned points")
    return (len(bad) > 0, "; ".join(bad[:3]) if bad else "all clauses hold")


if __name__ == "__main__":
    raise SystemExit(main(C17()))
