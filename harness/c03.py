"""C03 -- the fitted proposal is a normalised density; sampling and evaluation
agree (partial; DESIGN 6/C03).

Real code executed symbolically (code objects re-bound so that torch / jax
tensor construction is the identity on symbolic arrays): ZukoFlow.log_prob,
.sample_and_log_prob, .sample, .forward, .inverse; FlowJax.log_prob,
.sample_and_log_prob, .sample, .forward, .inverse; Flow.rescale /
inverse_rescale; the real FlowTransform attached as data_transform through the
real Aspire.init_flow argument wiring.  The trained network is abstract: base
density B uninterpreted, bijection G an abstract invertible map with
ladj_inv(G x) = -ladj(x)."""

from __future__ import annotations

import contextlib
import types

import numpy as np

from harness.c04 import EPS, prove_eq_exp, prove_logj, _rows
from harness.common import Check, main, sx, core, z3
from harness.util import env_array


class AbstractNet:
    """The third-party normalised flow: base density B (uninterpreted, applied
    row-wise to the network-space point) and a bijection G given as an
    abstract map that remembers its pairs (G^-1(G y) = y, opposite ladj)."""

    def __init__(self, ctx, d, name="B"):
        self.ctx, self.d = ctx, d
        self.name = name
        self.B = z3.Function(name, *([core.R] * (d + 1)))
        self.pairs = []  # (y rows, z rows, ladj)
        self.n = 0
        self.draws = []

    def tag(self):
        return "" if getattr(self, "name", "B") == "B" else "r"

    def base(self, y):
        y = sx.asarray(y)
        rows = [sx.terms(y[i]) for i in range(y.shape[0])]
        out = np.empty((len(rows),), dtype=object)
        for i, r in enumerate(rows):
            out[i] = self.B(*r)
        return sx.Array(out, sx.float64)

    def draw(self, n):
        self.n += 1
        y = sx.sym(f"lat{self.tag()}{self.n}", (int(n), self.d))
        self.draws.append(y)
        return y

    def G(self, y):
        y = sx.asarray(y)
        self.n += 1
        z = sx.sym(f"gz{self.tag()}{self.n}", y.shape)
        l = sx.sym(f"gl{self.tag()}{self.n}", (y.shape[0],))
        self.pairs.append((y, z, l))
        return z, l

    def Ginv(self, z):
        z = sx.asarray(z)
        for (y, zz, l) in self.pairs:
            if zz.shape == z.shape and all(a.eq(b) for a, b in zip(sx.terms(zz), sx.terms(z))):
                return y, -l
        self.n += 1
        y = sx.sym(f"gy{self.tag()}{self.n}", z.shape)
        l = sx.sym(f"gli{self.tag()}{self.n}", (z.shape[0],))
        self.pairs.append((y, z, -l))
        return y, l


_IDENT = lambda f=None, *a, **k: f if f is not None else (lambda g: g)  # noqa: E731


def rebound_subclass(cls, patched):
    """A subclass of the real wrapper class in which EVERY function, property
    and classmethod defined by the class is the real code object re-bound to
    globals where tensor construction is the identity and compilation
    decorators (jit / filter_jit / compile) return the function unchanged --
    compiling a function does not change what it computes."""

    def rb(fn):
        g = {**fn.__globals__, **patched}
        nf = types.FunctionType(fn.__code__, g, fn.__name__, fn.__defaults__, fn.__closure__)
        nf.__kwdefaults__ = fn.__kwdefaults__
        return nf

    ns = {}
    for name, v in cls.__dict__.items():
        if isinstance(v, types.FunctionType):
            ns[name] = rb(v)
        elif isinstance(v, property):
            ns[name] = property(rb(v.fget) if v.fget else None, rb(v.fset) if v.fset else None, rb(v.fdel) if v.fdel else None)
        elif isinstance(v, classmethod):
            ns[name] = classmethod(rb(v.__func__))
        elif isinstance(v, staticmethod):
            ns[name] = staticmethod(rb(v.__func__))

    def __getattr__(self, name):
        # the shell is made with __new__ (the real constructor builds a real
        # network): private attributes a constructor would initialise read as None
        if name.startswith("_") and not name.startswith("__"):
            return None
        raise AttributeError(name)

    ns["__getattr__"] = __getattr__
    return type(cls.__name__ + "Rebound", (cls,), ns)


def install_net(flow, net, backend):
    """What fitting does to the wrapper: FlowJax.fit rebinds self._flow to the
    trained flow; for zuko the module behind self._flow() is a new state."""
    flow._flow = _zuko_dist_factory(net) if backend == "zuko" else _flowjax_net(net)


def _zuko_dist_factory(net):
    class _Transform:
        def call_and_ladj(self, y):
            return net.G(y)

        @property
        def inv(self):
            class _I:
                def call_and_ladj(s, z):
                    return net.Ginv(z)

            return _I()

    class _Dist:
        transform = _Transform()

        def log_prob(self, y):
            return net.base(y)

        def rsample(self, shape):
            return net.draw(shape[0])

        def rsample_and_log_prob(self, shape):
            y = net.draw(shape[0])
            return y, net.base(y)

    return lambda: _Dist()


def _flowjax_net(net):
    class _F:
        def forward(self, y):
            return net.G(y)

        def inverse(self, z):
            return net.Ginv(z)

        def log_prob(self, y):
            return net.base(y)

        def sample(self, key, shape):
            return net.draw(shape[0])

    return _F()


def zuko_shell(net, data_transform):
    """A ZukoFlow whose methods are the real ones with `torch` re-bound."""
    from aspire.flows.torch import flows as TF

    class _Transform:
        def call_and_ladj(self, y):
            return net.G(y)

        @property
        def inv(self):
            class _I:
                def call_and_ladj(s, z):
                    return net.Ginv(z)

            return _I()

    class _Dist:
        transform = _Transform()

        def log_prob(self, y):
            return net.base(y)

        def rsample(self, shape):
            return net.draw(shape[0])

        def rsample_and_log_prob(self, shape):
            y = net.draw(shape[0])
            return y, net.base(y)

    shim = types.SimpleNamespace(
        as_tensor=lambda x, dtype=None, device=None: sx.asarray(x),
        no_grad=contextlib.nullcontext,
        compile=_IDENT,
        jit=types.SimpleNamespace(script=_IDENT, trace=_IDENT),
    )
    Sub = rebound_subclass(TF.ZukoFlow, {"torch": shim})
    obj = Sub.__new__(Sub)
    obj.dims = net.d
    obj.device = None
    obj.dtype = None
    obj.data_transform = data_transform
    obj._flow = lambda: _Dist()
    return obj


def flowjax_shell(net, data_transform):
    from aspire.flows.jax import flows as JF

    class _F:
        def forward(self, y):
            return net.G(y)

        def inverse(self, z):
            return net.Ginv(z)

        def log_prob(self, y):
            return net.base(y)

        def sample(self, key, shape):
            return net.draw(shape[0])

    jnp = types.SimpleNamespace(asarray=lambda x, dtype=None: sx.asarray(x))
    jrandom = types.SimpleNamespace(split=lambda k: (k, k))
    eqx = types.SimpleNamespace(filter_jit=_IDENT, filter_vmap=_IDENT)
    jax = types.SimpleNamespace(jit=_IDENT, numpy=jnp, random=jrandom)
    Sub = rebound_subclass(JF.FlowJax, {"jnp": jnp, "jrandom": jrandom, "eqx": eqx, "jax": jax})
    obj = Sub.__new__(Sub)
    obj.dims = net.d
    obj.device = None
    obj.dtype = None
    obj.key = "key"
    obj.data_transform = data_transform
    obj._flow = _F()
    return obj


def wired_transform(ctx, d, bounded, lo, hi):
    """data_transform built by the REAL Aspire.init_flow argument wiring."""
    import aspire.aspire as A

    captured = {}

    class Capture:
        def __init__(self, dims, device=None, data_transform=None, dtype=None, **kw):
            captured["t"] = data_transform
            captured["kw"] = kw

    old = A.get_flow_wrapper
    A.get_flow_wrapper = lambda backend="zuko", flow_matching=False: (Capture, sx)
    try:
        params = [f"p{k}" for k in range(d)]
        a = A.Aspire(
            log_likelihood=None,
            log_prior=None,
            dims=d,
            parameters=params,
            prior_bounds={p: [lo[k], hi[k]] for k, p in enumerate(params)} if bounded else None,
            bounded_to_unbounded=bounded is not None,
            bounded_transform=bounded or "logit",
            eps=EPS,
        )
        a.init_flow()
    finally:
        A.get_flow_wrapper = old
    return captured["t"]


class C03(Check):
    pid = "C03"
    required_labels = ["c03/log_prob", "c03/agreement", "c03/within_bounds", "c03/forward_inverse", "c03/agreement@refit", "c03/log_prob@refit"]
    stubs = [
        "torch.as_tensor / jnp.asarray -> identity on symbolic arrays; torch.no_grad -> null context; jax.random.split -> (k, k) (code objects of the real methods re-bound)",
        "the trained network: base log-density B uninterpreted; bijection G abstract with G^-1(G y) = y and ladj_inv(G y) = -ladj(y) (trusted: zuko / flowjax produce a normalised flow)",
        "FlowClass in Aspire.init_flow -> capture object (the real FlowTransform wiring is executed)",
        "the affine part is re-fitted on rows mu -/+ sigma (all fitted states), as in C04",
    ]
    outside = [
        "quadrature of the trained network's density, training, float32, save/load of weights through h5py/torch/equinox",
        "normalisation follows from change of variables given a normalised base flow; that third-party guarantee is trusted, not checked",
        "draws that land inside the clipping margin (within eps=1e-6 of a bound relative to the width): there log_prob evaluates at the clipped point",
    ]
    bounds = {"quick": {"d": 1, "batch": 2}, "thorough": {"d": 2, "batch": 2}}

    def configs(self, tier):
        out = []
        d = 1 if tier == "quick" else 2
        for backend in ("zuko", "flowjax"):
            for bounded in ("logit", "probit", None):
                out.append({"name": f"{backend}-{bounded or 'off'}", "backend": backend, "bounded": bounded, "d": d, "batch": 2, "timeout_ms": 120000})
        return out

    def harness(self, cfg):
        d, b, bounded = cfg["d"], cfg["batch"], cfg["bounded"]

        def h(ctx):
            lo, hi = sx.sym("lo", d), sx.sym("hi", d)
            L, H = sx.terms(lo), sx.terms(hi)
            for a_, c_ in zip(L, H):
                ctx.add_assume(a_ < c_)
            tr = wired_transform(ctx, d, bounded, lo, hi)
            import aspire.transforms as T

            ctx.prove(isinstance(tr, T.FlowTransform) and tr.xp is sx, "c03/wiring")
            ctx.prove(bool(tr.affine_transform) and (tr.bounded_parameters == [f"p{k}" for k in range(d)] if bounded else not tr.bounded_parameters), "c03/wiring")
            # fit: symbolic data first (fit == forward), then all fitted affine states
            data = sx.sym("a", (3, d))
            x = sx.sym("x", (b, d))
            for arr in (data, x):
                for r in _rows(arr):
                    for k in range(d):
                        if bounded:
                            w = H[k] - L[k]
                            ctx.add_assume(z3.And(r[k] >= L[k] + core.rv(EPS) * w, r[k] <= L[k] + core.rv(1.0 - EPS) * w))
            for k in range(d):
                ctx.add_assume(sx.term(data[0, k]) != sx.term(data[1, k]))
            net = AbstractNet(ctx, d)
            flow = zuko_shell(net, tr) if cfg["backend"] == "zuko" else flowjax_shell(net, tr)
            f = flow.fit_data_transform(data)
            for p, q in zip(sx.terms(f), sx.terms(tr.forward(data)[0])):
                ctx.prove(p == q, "c03/fit")
            mu, sg = sx.sym("mu", d), sx.sym("sg", d)
            for t in sx.terms(sg):
                ctx.add_assume(t > 0)
            tr._affine_transform.fit(sx.stack([mu - sg, mu + sg]))

            # 1. log_prob(x) = B(T x) + log|det T'(x)|
            lp = flow.log_prob(x, xp=sx)
            y, _ = tr.forward(x)
            Bx = net.base(y)
            X, Y = _rows(x), _rows(y)
            for i in range(b):
                prove_logj(ctx, Y[i], X[i], lp[i] - Bx[i], "c03/log_prob")

            # 2. sampling and evaluation agree -- before and after the network is
            # replaced by a (re-)fit: whatever log_prob was evaluated with before,
            # it must follow the network that sampling uses now
            def agreement(net_, sfx):
                xs, lq = flow.sample_and_log_prob(b, xp=sx)
                lat = net_.draws[-1]
                if bounded:
                    # draws that land inside the documented clipping margin (within
                    # eps of a bound, relative to the width) are outside the claim
                    for r in _rows(xs):
                        for k in range(d):
                            w = H[k] - L[k]
                            ctx.add_assume(z3.And(r[k] >= L[k] + core.rv(EPS) * w, r[k] <= L[k] + core.rv(1.0 - EPS) * w))
                lp2 = flow.log_prob(xs, xp=sx)
                back, ljf = tr.forward(xs)
                _, lji = tr.inverse(lat)
                same = []
                stage = z3.BoolVal(True)
                if bounded == "logit":
                    # staged: logit(sigmoid(v)) == v by injectivity of exp on the
                    # bounded part alone, then the affine part cancels
                    v, _ = tr._affine_transform.inverse(lat)
                    g, _ = tr._bounded_transform.forward(xs)
                    eqs = []
                    for p, q in zip(sx.terms(g), sx.terms(v)):
                        ctx.prove(sx.term(sx.exp(sx.asarray(p - q))) == 1, "c03/sample_roundtrip_bounded" + sfx)
                        eqs.append(p == q)
                    stage = z3.And(*eqs)
                for p, q in zip(sx.terms(back), sx.terms(lat)):
                    ctx.prove(z3.Implies(stage, p == q), "c03/sample_roundtrip" + sfx)
                    same.append(p == q)
                for i in range(b):
                    prove_eq_exp(ctx, ljf[i], -lji[i], "c03/sample_logj" + sfx)
                # with the two facts just proved as premises, the attached density
                # equals log_prob at the drawn points
                prem = z3.And(*same, *[sx.term(ljf[i]) == -sx.term(lji[i]) for i in range(b)])
                for i in range(b):
                    ctx.prove(z3.Implies(prem, sx.term(lq[i]) == sx.term(lp2[i])), "c03/agreement" + sfx)
                return xs

            xs = agreement(net, "")
            xs2 = flow.sample(b, xp=sx)
            lat2 = net.draws[-1]
            want, _ = tr.inverse(lat2)
            for p, q in zip(sx.terms(xs2), sx.terms(want)):
                ctx.prove(p == q, "c03/sample_is_inverse_rescale")

            # 3. draws respect the bounds
            if bounded:
                for r in _rows(xs):
                    for k in range(d):
                        ctx.prove(z3.And(r[k] > L[k], r[k] < H[k]), "c03/within_bounds")
            else:
                ctx.reach("c03/within_bounds")

            # 4. flow-based preconditioning map: forward / inverse
            z, lj_f = flow.forward(x, xp=sx)
            x_back, lj_i = flow.inverse(z, xp=sx)
            for p, q in zip(sx.terms(x_back), sx.terms(x)):
                ctx.prove(p == q, "c03/forward_inverse")
            for i in range(b):
                prove_eq_exp(ctx, lj_i[i], -lj_f[i], "c03/forward_inverse_logj")
            (yy, zz, gl) = net.pairs[0]
            for i in range(b):
                # total forward log-Jacobian = network ladj + data-transform log-Jacobian
                prove_logj(ctx, Y[i], X[i], lj_f[i] - gl[i], "c03/forward_logj")

            # 5. after a (re-)fit replaced the network
            net2 = AbstractNet(ctx, d, name="B2")
            install_net(flow, net2, cfg["backend"])
            agreement(net2, "@refit")
            lp_new = flow.log_prob(x, xp=sx)
            B2x = net2.base(y)
            for i in range(b):
                ctx.prove(sx.term(lp_new[i]) - sx.term(B2x[i]) == sx.term(lp[i]) - sx.term(Bx[i]), "c03/log_prob@refit", detail={"row": i})

            # translator validation: log_prob on the real wrapper + real FlowTransform
            # with NumPy, base density given in closed form, under a model
            def Bf(*a):
                return -0.5 * sum(v * v for v in a) - 0.3

            def runner(env):
                import aspire.transforms as T

                l = np.asarray(env_array(env, "lo", (d,)))
                u = np.asarray(env_array(env, "hi", (d,), default=1.0))
                params = [f"p{k}" for k in range(d)]
                t2 = T.FlowTransform(
                    parameters=params,
                    prior_bounds={p: [l[k], u[k]] for k, p in enumerate(params)} if bounded else None,
                    bounded_to_unbounded=bounded is not None,
                    bounded_transform=bounded or "logit",
                    xp=np,
                    eps=EPS,
                )
                t2.fit(np.asarray(env_array(env, "a", (3, d))))
                mm = np.asarray(env_array(env, "mu", (d,)))
                ss = np.asarray(env_array(env, "sg", (d,), default=1.0))
                t2._affine_transform.fit(np.stack([mm - ss, mm + ss]))

                class N2:
                    d_ = d

                    def base(self, y):
                        return np.array([Bf(*r) for r in np.asarray(y, float)])

                net2 = N2()
                net2.d = d
                global sx
                real = sx
                try:
                    sx = types.SimpleNamespace(asarray=lambda v, **k: np.asarray(v, dtype=float))
                    fl2 = zuko_shell(net2, t2) if cfg["backend"] == "zuko" else flowjax_shell(net2, t2)
                    npx = types.ModuleType("npx")
                    npx.asarray = lambda v, **k: np.asarray(v, dtype=float)
                    return {"lp": np.asarray(fl2.log_prob(np.asarray(env_array(env, "x", (b, d))), xp=npx))}
                finally:
                    sx = real

            ctx.validate({"lp": sx.terms(lp)}, runner, fns={"B": Bf}, tol=1e-5)

        return h

    def to_cex(self, fl):
        env = {k: v for k, v in fl["env"].items() if k != "__purified__" and "!" not in k}
        return {"cfg": fl["cfg"], "label": fl["label"], "env": env}

    def replay(self, cex):
        return replay_c03(cex)


def replay_c03(cex):
    """The real wrappers over a concrete closed-form 'network' (standard normal
    base, affine bijection) with the real FlowTransform on NumPy / torch-free
    shims; float oracle with finite differences."""
    import math

    import aspire.transforms as T

    cfg = cex["cfg"]
    env = cex["env"]
    d, b, bounded = cfg["d"], cfg["batch"], cfg["bounded"]
    lo = np.asarray(env_array(env, "lo", (d,)))
    hi = np.asarray(env_array(env, "hi", (d,), default=1.0))
    if np.any(hi <= lo):
        lo, hi = np.zeros(d), np.ones(d)
    params = [f"p{k}" for k in range(d)]
    tr = T.FlowTransform(
        parameters=params,
        prior_bounds={p: [lo[k], hi[k]] for k, p in enumerate(params)} if bounded else None,
        bounded_to_unbounded=bounded is not None,
        bounded_transform=bounded or "logit",
        xp=np,
        eps=EPS,
    )
    rs = np.random.default_rng(1)
    data = lo + (hi - lo) * rs.uniform(0.2, 0.8, size=(6, d))
    tr.fit(data)
    # as in the harness: the affine part is fitted a second time (any fitted state)
    mu = np.asarray(env_array(env, "mu", (d,)))
    sg = np.asarray(env_array(env, "sg", (d,), default=1.0))
    sg = np.where(sg > 0, sg, 1.0) * 3.0
    tr._affine_transform.fit(np.stack([mu - sg, mu + sg]))

    class Net:
        d_ = d
        draws = []
        n = 0

        def base(self, y):
            y = np.asarray(y, float)
            return -0.5 * np.sum(y**2, axis=-1) - 0.5 * d * math.log(2 * math.pi)

        def draw(self, n):
            y = rs.normal(size=(int(n), d))
            self.draws.append(y)
            return y

        def G(self, y):
            y = np.asarray(y, float)
            return 2.0 * y + 0.5, np.full(len(y), d * math.log(2.0))

        def Ginv(self, z):
            z = np.asarray(z, float)
            return (z - 0.5) / 2.0, np.full(len(z), -d * math.log(2.0))

    net = Net()
    net.d = d
    # reuse the shells with numpy in place of sx
    global sx
    real_sx = sx
    bad = []
    NPX = types.ModuleType("npx")
    NPX.asarray = lambda v, **k: np.asarray(v, dtype=float)
    try:
        sx = types.SimpleNamespace(asarray=lambda v, **k: np.asarray(v, dtype=float))
        flow = zuko_shell(net, tr) if cfg["backend"] == "zuko" else flowjax_shell(net, tr)
        x = lo + (hi - lo) * rs.uniform(0.1, 0.9, size=(b, d))
        with np.errstate(all="ignore"):
            lp = np.asarray(flow.log_prob(x, xp=NPX))
            y, lj = tr.forward(x)
            want = net.base(y) + lj
            if np.max(np.abs(lp - want)) > 1e-8:
                bad.append(f"log_prob {lp.tolist()} expected base density + data-transform log-Jacobian {want.tolist()}")
            # independent Jacobian by finite differences
            from harness.c04 import _fd_logdet

            for i in range(b):
                fd = _fd_logdet(tr.forward, x[i : i + 1].copy())
                if abs((lp[i] - net.base(y)[i]) - fd) > 1e-3 * max(1, abs(fd)):
                    bad.append(f"log_prob row {i}: Jacobian term {lp[i] - net.base(y)[i]!r} vs finite differences {fd!r}")
            xs, lq = flow.sample_and_log_prob(b, xp=NPX)
            lp2 = np.asarray(flow.log_prob(xs, xp=NPX))
            if np.max(np.abs(np.asarray(lq) - lp2)) > 1e-6 * max(1.0, float(np.max(np.abs(lp2)))):
                bad.append(f"log-density attached to the draws {np.asarray(lq).tolist()} differs from log_prob at the draws {lp2.tolist()}")
            if bounded and not (np.all(xs > lo) and np.all(xs < hi)):
                bad.append("draws outside the declared bounds")
            # the network is replaced by a (re-)fit: evaluation must follow sampling
            class Net2(Net):
                def base(self, y):
                    y = np.asarray(y, float)
                    return -0.5 * np.sum((y / 1.5) ** 2, axis=-1) - d * math.log(1.5) - 0.5 * d * math.log(2 * math.pi)

                def G(self, y):
                    y = np.asarray(y, float)
                    return 0.5 * y - 1.0, np.full(len(y), d * math.log(0.5))

                def Ginv(self, z):
                    z = np.asarray(z, float)
                    return (z + 1.0) / 0.5, np.full(len(z), -d * math.log(0.5))

            net2 = Net2()
            net2.d = d
            keep = flow._flow
            install_net(flow, net2, cfg["backend"])
            xs3, lq3 = flow.sample_and_log_prob(b, xp=NPX)
            lp3 = np.asarray(flow.log_prob(xs3, xp=NPX))
            if np.max(np.abs(np.asarray(lq3) - lp3)) > 1e-6 * max(1.0, float(np.max(np.abs(lp3)))):
                bad.append(f"after the network was replaced by a (re-)fit, the log-density attached to the draws {np.asarray(lq3).tolist()} differs from log_prob at the draws {lp3.tolist()}")
            flow._flow = keep
            z, ljf = flow.forward(x, xp=NPX)
            xb, lji = flow.inverse(z, xp=NPX)
            if np.max(np.abs(np.asarray(xb) - x)) > 1e-8 * max(1.0, float(np.max(np.abs(x)))):
                bad.append("inverse(forward(x)) != x")
            if np.max(np.abs(np.asarray(lji) + np.asarray(ljf))) > 1e-8 * max(1.0, float(np.max(np.abs(ljf)))):
                bad.append("inverse log-Jacobian is not minus the forward one")
    finally:
        sx = real_sx
    return (len(bad) > 0, "; ".join(bad[:3]) if bad else "all C03 clauses hold on this input")


if __name__ == "__main__":
    raise SystemExit(main(C03()))
