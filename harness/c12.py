"""C12 -- an interrupted run leaves a loadable, current checkpoint file
(partial; DESIGN 6/C12): cadence with a symbolic checkpoint_every, payload
currency, the file after a fault at every likelihood call, and the blob
overwrite arithmetic of dump_pickle_to_hdf (harness.blob)."""

from harness import blob
from harness.common import main, sx
from harness.loop_base import LoopCheck


class C12(LoopCheck):
    pid = "C12"
    props = {"C12"}
    flows = ("cadence", "resume")
    adaptive_N3 = ()
    required_labels = ["c12/cadence", "c12/payload_current", "c12/file_is_latest_payload", "c12/blob_length", "c12/blob_content",
                       "c12/file_has_config", "c12/file_has_proposal", "c12/aspire_file_is_latest_payload", "c12/file_loadable"]

    def configs(self, tier):
        out = []
        for c in super().configs(tier):
            if c["flow"] == "resume":
                if c["n_final"] or (tier == "quick" and c["schedule"] != "fixed2"):
                    continue
                c["routes"] = ["file"]
            else:
                c["every_values"] = [0, 1, 2, 3]
                if c["schedule"] == "fixed2" and c["sampler"] == "MiniPCNSMC":
                    c2 = dict(c)
                    c2.update(cadence_via="file", name=c["name"] + "-viafile")
                    out.append(c2)
            out.append(c)
        # the real Aspire route: config and proposal are written before sampling
        # starts; a fault at every likelihood call, then the file is inspected and
        # handed to Aspire.resume_from_file
        for sched in (["fixed2"] if tier == "quick" else ["fixed2", "fixed4", "adaptive_half"]):
            out.append({"name": f"aspire_file-{sched}", "flow": "resume_file", "schedule": sched, "n_final": False, "sampler": "MiniPCNSMC",
                        "N": 2, "d": 1, "T": 4 if sched == "fixed4" else 2, "D": 4, "timeout_ms": 120000, "all_crash_points": True})
        out += blob.configs(tier)
        return out

    def ctx_for(self, cfg, seed):
        if cfg.get("kind") == "blob":
            return sx.Ctx(self.pid, seed=seed, timeout_ms=60000)
        return super().ctx_for(cfg, seed)

    def harness(self, cfg):
        if cfg.get("kind") == "blob":
            return blob.harness(cfg)
        return super().harness(cfg)

    def to_cex(self, fl):
        if fl["cfg"].get("kind") == "blob":
            return blob.to_cex(fl)
        return super().to_cex(fl)

    def replay(self, cex):
        if cex["cfg"].get("kind") == "blob":
            return blob.replay(cex)
        return super().replay(cex)


if __name__ == "__main__":
    raise SystemExit(main(C12()))
