"""C12 -- an interrupted run leaves a loadable, current checkpoint file
(partial; DESIGN 6/C12): cadence with a symbolic checkpoint_every, payload
currency, the file after a fault at every likelihood call, and the blob
overwrite arithmetic of dump_pickle_to_hdf (harness.blob)."""

from harness.common import main
from harness.loop_base import LoopCheck


class C12(LoopCheck):
    pid = "C12"
    props = {"C12"}
    flows = ("cadence", "resume")
    required_labels = ["c12/cadence", "c12/payload_current", "c12/file_is_latest_payload"]

    def configs(self, tier):
        out = []
        for c in super().configs(tier):
            if c["flow"] == "resume":
                if c["n_final"] or (tier == "quick" and c["schedule"] != "fixed2"):
                    continue
                c["routes"] = ["file"]
            else:
                c["every_values"] = [1, 2, 3]
            out.append(c)
        return out


if __name__ == "__main__":
    raise SystemExit(main(C12()))
