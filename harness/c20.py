"""C20 -- runs are reproducible given the same explicit random sources
(partial; DESIGN 6/C20): two executions on the same symbolic stream yield
identical terms, and every draw is served by the generator the user supplied
(constructor, sampling call, top-level Aspire.sample_posterior)."""

from harness.common import main
from harness.loop_base import LoopCheck


class C20(LoopCheck):
    pid = "C20"
    props = {"C20"}
    flows = ("rng",)
    adaptive_N3 = ()
    required_labels = ["c20/no_fresh_generator", "c20/user_generator_used", "c20/identical/ladder", "c20/generator_routed_unchanged"]

    def configs(self, tier):
        out = []
        for c in super().configs(tier):
            if c["n_final"] and tier == "quick" and c["schedule"] != "fixed2":
                continue
            for via in ("sample", "ctor", "aspire"):
                if c["sampler"] == "EmceeSMC" and via != "sample":
                    continue
                if c["n_final"] and via != "sample" and tier == "quick":
                    continue
                c2 = dict(c)
                c2["rng_via"] = via
                c2["name"] = c["name"] + "-" + via
                out.append(c2)
        return out

    def replay(self, cex):
        ok, msg = super().replay(cex)
        if cex.get("label") == "c20/generator_routed_unchanged":
            # this clause is decided by its own observation only (D10 symptoms on the
            # same run are a different matter)
            ok = "not the user's object" in msg
        return ok, msg

    def finding_of(self, cex):
        cfg = cex["cfg"]
        info = cex.get("_info") or {}
        if cex.get("label") == "c20/generator_routed_unchanged":
            return None
        if cfg.get("rng_via") in ("ctor", "aspire") and cfg["sampler"] == "MiniPCNSMC" and info.get("fresh", 0) >= 1 and info.get("user_draws") == 0:
            return "C20-D10"
        return None

    def known_finding_probes(self):
        cex = {
            "cfg": {"flow": "rng", "schedule": "fixed1", "n_final": False, "sampler": "MiniPCNSMC", "N": 2, "d": 1, "T": 2, "rng_via": "ctor", "name": "D10-probe"},
            "label": "c20/no_fresh_generator",
            "env": {},
            "purified": {},
        }
        return [("C20-D10", cex)]


if __name__ == "__main__":
    raise SystemExit(main(C20()))
