"""C20 -- runs are reproducible given the same explicit random sources
(partial; DESIGN 6/C20): two executions on the same symbolic stream yield
identical terms, and every draw is served by the generator the user supplied
(constructor, sampling call, top-level Aspire.sample_posterior)."""

import contextlib
import types

import numpy as np

from harness.common import core, main, sx, z3
from harness.loop_base import LoopCheck

# ---------------------------------------------------------------------------
# flow construction: which randomness the network is built from
#
# torch's global generator and JAX's keys are modelled symbolically: seeding is an
# uninterpreted function of the seed, drawing advances the state, splitting / folding a
# key are uninterpreted functions of the key.  Everything else a process could consult
# (the salted hash() of a string, the clock, ids, the python / numpy global generators)
# is an environment stub that returns a DIFFERENT value in each of the two constructions.


class TorchRngModel:
    def __init__(self, ctx, tag):
        self.ctx = ctx
        self.state = z3.Real(f"torch_state0_{tag}")  # arbitrary: whatever ran before
        self.last_seed = z3.Real(f"torch_initial_seed_{tag}")
        self.SEED = z3.Function("SEED", core.R, core.R)
        self.NEXT = z3.Function("NEXT", core.R, core.R)
        self.calls = []

    def manual_seed(self, s):
        t = sx.term(sx.asarray(s))
        self.state = self.SEED(t)
        self.last_seed = t
        self.calls.append(("manual_seed", t))
        return self

    def initial_seed(self):
        return sx.Array(self.last_seed, sx.int64)

    def seed(self):
        self.state = z3.Real(f"torch_reseed_{len(self.calls)}")
        self.calls.append(("seed", None))
        return 0

    def draw(self):
        st = self.state
        self.state = self.NEXT(st)
        return st


class _FakeNet:
    """zuko.flows.<Class> stand-in: construction initialises the weights from the
    global generator's current state."""

    built = []

    def __init__(self, *a, **k):
        self.init_state = _ENV["torch"].draw()
        _FakeNet.built.append(self)

    def to(self, **k):
        return self

    def compile(self):
        return self


_ENV = {}


def _torch_shim(model):
    t = types.SimpleNamespace()
    t.manual_seed = model.manual_seed
    t.initial_seed = model.initial_seed
    t.seed = model.seed
    t.get_default_dtype = lambda: "float32"
    t.device = lambda d=None: d
    t.float32, t.float64 = "float32", "float64"
    t.no_grad = contextlib.nullcontext
    t.Generator = lambda *a, **k: types.SimpleNamespace(manual_seed=model.manual_seed)
    return t


class KeyObj:
    def __init__(self, term):
        self.term = term


def _jrandom_shim():
    KEY = z3.Function("KEY", core.R, core.R)
    S1 = z3.Function("SPLIT1", core.R, core.R)
    S2 = z3.Function("SPLIT2", core.R, core.R)
    FOLD = z3.Function("FOLD", core.R, core.R, core.R)
    j = types.SimpleNamespace()
    j.key = lambda s: KeyObj(KEY(sx.term(sx.asarray(s))))
    j.PRNGKey = j.key
    j.split = lambda k, num=2: (KeyObj(S1(k.term)), KeyObj(S2(k.term)))
    j.fold_in = lambda k, d: KeyObj(FOLD(k.term, sx.term(sx.asarray(d))))
    j.key_data = lambda k: k
    return j


@contextlib.contextmanager
def _environment(run):
    """Process-dependent sources, different in every run, visible to the aspire modules
    that take part in flow construction (module-level names shadow the builtins)."""
    import random as pyrandom
    import time

    import aspire.aspire as A
    import aspire.flows.base as FB
    import aspire.flows.jax.flows as JF
    import aspire.flows.torch.flows as TF
    import aspire.transforms as T

    salt = 1111 * (run + 1)
    mods = [A, FB, JF, TF, T]
    fake = {"hash": lambda o: salt + len(str(o)), "id": lambda o: 7000 + salt}
    saved = []
    for m in mods:
        for name, fn in fake.items():
            saved.append((m, name, m.__dict__.get(name, _ENV)))
            setattr(m, name, fn)
    old_time, old_rand, old_np = time.time, pyrandom.random, np.random.randint
    time.time = lambda: 1.7e9 + salt
    pyrandom.random = lambda: 0.001 * salt % 1.0
    try:
        yield
    finally:
        time.time, pyrandom.random = old_time, old_rand
        for m, name, v in saved:
            if v is _ENV:
                delattr(m, name)
            else:
                setattr(m, name, v)


class C20(LoopCheck):
    pid = "C20"
    props = {"C20"}
    flows = ("rng",)
    adaptive_N3 = ()
    required_labels = ["c20/no_fresh_generator", "c20/user_generator_used", "c20/identical/ladder", "c20/generator_routed_unchanged", "c20/construction/seeded_from_user_seed", "c20/construction/same_in_both_processes"]

    def configs(self, tier):
        out = [
            {"name": "construction-zuko", "kind": "construction", "route": "zuko", "flow": "construction"},
            {"name": "construction-flowjax", "kind": "construction", "route": "flowjax", "flow": "construction"},
            {"name": "construction-precond-zuko", "kind": "construction", "route": "precond_zuko", "flow": "construction"},
            {"name": "construction-precond-flowjax", "kind": "construction", "route": "precond_flowjax", "flow": "construction"},
            {"name": "construction-aspire-init_flow", "kind": "construction", "route": "init_flow", "flow": "construction"},
        ]
        for c in super().configs(tier):
            if c["n_final"] and tier == "quick" and c["schedule"] != "fixed2":
                continue
            for via in ("sample", "ctor", "aspire"):
                if c["sampler"] == "EmceeSMC" and via != "sample":
                    continue
                if c["n_final"] and via != "sample" and tier == "quick":
                    continue
                c2 = dict(c)
                c2["rng_via"] = via
                c2["name"] = c["name"] + "-" + via
                out.append(c2)
        return out

    def ctx_for(self, cfg, seed):
        if cfg.get("kind") == "construction":
            return sx.Ctx(self.pid, D=1, seed=seed, timeout_ms=60000)
        return super().ctx_for(cfg, seed)

    def harness(self, cfg):
        if cfg.get("kind") == "construction":
            return self.h_construction(cfg)
        return super().harness(cfg)

    def h_construction(self, cfg):
        route = cfg["route"]

        def h(ctx):
            import aspire.aspire as A
            import aspire.flows.jax.flows as JF
            import aspire.flows.torch.flows as TF
            import aspire.transforms as T

            user_seed = sx.Array(z3.Real("user_seed"), sx.int64)
            user_key = KeyObj(z3.Real("user_key"))
            seen = []  # per run: what the network was built from
            for run in range(2):
                model = TorchRngModel(ctx, run)
                _ENV["torch"] = model
                _FakeNet.built = []
                got = {}
                saved = (TF.torch, TF.zuko, JF.jrandom, JF.get_flow, T.get_flow_wrapper, A.get_flow_wrapper)
                TF.torch = _torch_shim(model)
                TF.zuko = types.SimpleNamespace(flows=types.SimpleNamespace(MAF=_FakeNet, NSF=_FakeNet))
                JF.jrandom = _jrandom_shim()
                JF.get_flow = lambda key=None, **k: got.setdefault("jax_network_key", key) and types.SimpleNamespace()

                class Recording:
                    xp = sx

                    def __init__(self, dims=None, device=None, data_transform=None, **kw):
                        got["flow_kwargs"] = kw

                    def fit(self, x, **k):
                        return None

                    def forward(self, x, xp=None):
                        return x, sx.zeros(x.shape[0])

                try:
                    with _environment(run):
                        if route == "zuko":
                            f = TF.ZukoFlow(dims=2, seed=user_seed, data_transform=T.IdentityTransform(xp=sx))
                            got["torch_network_state"] = _FakeNet.built[-1].init_state if _FakeNet.built else None
                        elif route == "flowjax":
                            f = JF.FlowJax(dims=2, key=user_key, data_transform=T.IdentityTransform(xp=sx))
                            got["jax_key_after"] = f.key
                        elif route in ("precond_zuko", "precond_flowjax"):
                            T.get_flow_wrapper = lambda backend="zuko", flow_matching=False: (Recording, sx)
                            kw = {"seed": user_seed} if route == "precond_zuko" else {"key": user_key}
                            tr = T.FlowPreconditioningTransform(parameters=["a", "b"], flow_backend="zuko" if route == "precond_zuko" else "flowjax", xp=sx, flow_kwargs=kw, bounded_to_unbounded=False, affine_transform=False)
                            tr.fit(sx.sym("fitx", (2, 2)))
                        else:
                            A.get_flow_wrapper = lambda backend="zuko", flow_matching=False: (Recording, sx)
                            a = A.Aspire(log_likelihood=None, log_prior=None, dims=2, parameters=["a", "b"], xp=sx, seed=user_seed, key=user_key)
                            a.init_flow()
                except (core.PathCut, core.Infeasible, core.Inconclusive, core.HarnessError):
                    raise
                except Exception as e:  # noqa: BLE001
                    ctx.prove(False, "c20/construction/raises", detail={"route": route, "exception": repr(e)})
                    return
                finally:
                    TF.torch, TF.zuko, JF.jrandom, JF.get_flow, T.get_flow_wrapper, A.get_flow_wrapper = saved
                seen.append((model, got))

            def tm(v):
                if isinstance(v, KeyObj):
                    return v.term
                if isinstance(v, sx.Array):
                    return sx.term(v)
                if z3.is_expr(v):
                    return v
                return None

            (m0, g0), (m1, g1) = seen
            if route == "zuko":
                # whatever the global generator did before, the network is built from the
                # state the user's seed determines
                for m, g in seen:
                    st = g.get("torch_network_state")
                    ctx.prove(st is not None and st.eq(m.SEED(sx.term(user_seed))) or (st is not None and ctx_equal(ctx, st, m.SEED(sx.term(user_seed)))), "c20/construction/seeded_from_user_seed", detail={"route": route, "generator_calls": [c[0] for c in m.calls]})
            keys = sorted(set(g0) | set(g1))
            ctx.prove(len(keys) >= 1, "c20/construction/observed", detail={"route": route})
            for k in keys:
                a_, b_ = g0.get(k), g1.get(k)
                if isinstance(a_, dict) or isinstance(b_, dict):
                    a_, b_ = a_ or {}, b_ or {}
                    ctx.prove(sorted(a_) == sorted(b_), "c20/construction/same_in_both_processes", detail={"route": route, "what": k})
                    for kk in sorted(set(a_) & set(b_)):
                        ta, tb = tm(a_[kk]), tm(b_[kk])
                        if ta is not None and tb is not None:
                            ctx.prove(ta == tb, "c20/construction/same_in_both_processes", detail={"route": route, "what": f"{k}[{kk}]"})
                        else:
                            ctx.prove(bool(a_[kk] == b_[kk]), "c20/construction/same_in_both_processes", detail={"route": route, "what": f"{k}[{kk}]", "run0": repr(a_[kk]), "run1": repr(b_[kk])})
                else:
                    ta, tb = tm(a_), tm(b_)
                    if k == "torch_network_state":
                        continue  # decided above (initial states of the two runs are independent)
                    ctx.prove(ta is not None and tb is not None and ctx_equal(ctx, ta, tb), "c20/construction/same_in_both_processes", detail={"route": route, "what": k})

        return h

    def replay(self, cex):
        if cex["cfg"].get("kind") == "construction":
            return replay_construction(cex)
        ok, msg = super().replay(cex)
        if cex.get("label") == "c20/generator_routed_unchanged":
            # this clause is decided by its own observation only (D10 symptoms on the
            # same run are a different matter)
            ok = "not the user's object" in msg
        return ok, msg

    def finding_of(self, cex):
        cfg = cex["cfg"]
        info = cex.get("_info") or {}
        if cex.get("label") == "c20/generator_routed_unchanged":
            return None
        if cfg.get("rng_via") in ("ctor", "aspire") and cfg["sampler"] == "MiniPCNSMC" and info.get("fresh", 0) >= 1 and info.get("user_draws") == 0:
            return "C20-D10"
        return None

    def known_finding_probes(self):
        cex = {
            "cfg": {"flow": "rng", "schedule": "fixed1", "n_final": False, "sampler": "MiniPCNSMC", "N": 2, "d": 1, "T": 2, "rng_via": "ctor", "name": "D10-probe"},
            "label": "c20/no_fresh_generator",
            "env": {},
            "purified": {},
        }
        return [("C20-D10", cex)]


def ctx_equal(ctx, a, b):
    """a == b on the current path (solver query)."""
    res, _ = ctx.check([a != b])
    return res == "unsat"


def replay_construction(cex):
    """Concrete replay of a construction counterexample: the real flow wrappers with the
    real torch / jax generators."""
    import subprocess
    import sys

    route = cex["cfg"]["route"]
    code = r"""
import sys, hashlib
import numpy as np
route = sys.argv[1]
def digest(arrs):
    h = hashlib.sha256()
    for a in arrs:
        h.update(np.ascontiguousarray(np.asarray(a)).tobytes())
    return h.hexdigest()
if route in ("zuko", "precond_zuko"):
    import torch
    from aspire.flows.torch.flows import ZukoFlow
    outs = []
    for pre in (0, 3):
        torch.manual_seed(1234)        # the state an earlier flow with the same seed left behind
        for _ in range(pre):
            torch.rand(5)
        if route == "zuko":
            f = ZukoFlow(dims=2, seed=1234)
            outs.append(digest([p.detach().numpy() for p in f.flow.parameters()]))
        else:
            import aspire.transforms as T
            rec = {}
            class R:
                def __init__(self, **kw): rec.update(kw)
                def fit(self, x, **k): pass
                def forward(self, x, xp=None): return x, np.zeros(len(x))
            T.get_flow_wrapper = lambda backend="zuko", flow_matching=False: (R, np)
            tr = T.FlowPreconditioningTransform(parameters=["a","b"], xp=np, flow_kwargs={"seed": 1234}, bounded_to_unbounded=False, affine_transform=False)
            tr.fit(np.zeros((2,2)))
            outs.append(str(rec.get("seed")))
    print("RESULT", outs[0] if outs[0] == outs[1] else "DIFFERENT-WITHIN-PROCESS " + repr(outs))
else:
    import jax
    if route == "flowjax":
        from aspire.flows.jax.flows import FlowJax
        f = FlowJax(dims=2, key=jax.random.key(7))
        leaves = [l for l in jax.tree_util.tree_leaves(f._flow) if hasattr(l, "dtype") and getattr(l.dtype, "kind", "") == "f"]
        print("RESULT", digest(leaves))
    else:
        import aspire.transforms as T, aspire.aspire as A
        rec = {}
        class R:
            xp = np
            def __init__(self, **kw): rec.update(kw)
            def fit(self, x, **k): pass
            def forward(self, x, xp=None): return x, np.zeros(len(x))
        T.get_flow_wrapper = A.get_flow_wrapper = lambda backend="zuko", flow_matching=False: (R, np)
        if route == "precond_flowjax":
            tr = T.FlowPreconditioningTransform(parameters=["a","b"], flow_backend="flowjax", xp=np, flow_kwargs={"key": jax.random.key(7)}, bounded_to_unbounded=False, affine_transform=False)
            tr.fit(np.zeros((2,2)))
        else:
            a = A.Aspire(log_likelihood=None, log_prior=None, dims=2, parameters=["a","b"], xp=np, seed=1234, key=jax.random.key(7))
            a.init_flow()
        out = {k: (np.asarray(jax.random.key_data(v)).tolist() if k == "key" else v) for k, v in rec.items() if k in ("seed", "key")}
        print("RESULT", sorted(out.items()))
"""
    import os

    from harness.common import REPO

    res = []
    for salt in ("1", "2"):
        env = dict(os.environ, PYTHONHASHSEED=salt, PYTHONPATH=os.path.join(REPO, "src"), JAX_PLATFORMS="cpu")
        p = subprocess.run(["/venv/bin/python", "-c", code, route], env=env, capture_output=True, text=True, timeout=600)
        line = [ln for ln in p.stdout.splitlines() if ln.startswith("RESULT")]
        if not line:
            return False, f"construction replay failed to run: {p.stderr[-300:]}"
        res.append(line[0])
    if any("DIFFERENT-WITHIN-PROCESS" in r for r in res):
        return True, f"C20: two flows built with the same seed in one process differ: {res[0][:200]}"
    if res[0] != res[1]:
        return True, f"C20: the same construction in two processes (PYTHONHASHSEED=1 / 2) differs: {res[0][:120]} vs {res[1][:120]}"
    return False, "flow construction is reproducible on this input"


if __name__ == "__main__":
    raise SystemExit(main(C20()))
