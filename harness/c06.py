"""C06 -- the SMC temperature schedule strictly increases, ends exactly at 1,
terminates.

Three harnesses (DESIGN 6/C06):
  step   (SX/R)  real determine_beta on a symbolic population (harness.beta_step)
  fixed  (SX/F)  the non-adaptive ladder in Float64 with a symbolic n_steps
                 (bit-vector), through the real sample() loop
  loop   (SX/R)  whole runs (harness.smc_loop), termination / final temperature
"""

from __future__ import annotations

import math

import numpy as np

from harness import beta_step
from harness.common import Check, main, sx, core, z3
from harness.striplog import strip_logging

PROPS = {"C06"}


from harness.loop_base import LoopCheck  # noqa: E402


class _Loop06(LoopCheck):
    pid = "C06"
    props = {"C06"}
    flows = ("plain",)

    thorough_schedules = ["fixed1", "fixed2", "fixed4", "adaptive_half", "adaptive_cap2", "adaptive_free"]
    # N = 3 multiplies the bisection paths per iteration; the first complete thorough run
    # spent 55 minutes in single subtrees of adaptive_cap2 / adaptive_free at N = 3
    adaptive_N3 = ("adaptive_half",)

    def schedules(self, tier):
        return super().schedules(tier) + ["fixed4_cap2"]

    def configs(self, tier):
        out = LoopCheck.configs(self, tier)
        # interrupted-and-resumed runs: the ladder of the whole (resumed from the serialised
        # payload and from the live dictionary the callback was handed)
        for sched in (["fixed2"] if tier == "quick" else ["fixed2", "fixed4", "adaptive_half"]):
            for c in out:
                if c["flow"] == "plain" and c["schedule"] == sched and not c["n_final"] and c["sampler"] == "MiniPCNSMC":
                    c2 = dict(c)
                    c2.update(flow="resume", routes=["bytes", "live_dict"], name=c["name"].replace("plain-", "resume-"))
                    out.append(c2)
                    break
        return out


class NullPop:
    """Population stand-in for the fixed-schedule harness: the ladder does not
    depend on the population when adaptive=False."""

    def __init__(self):
        self.x = sx.zeros((2, 1))
        self.log_q = sx.zeros(2)
        self.log_prior = sx.zeros(2)
        self.log_likelihood = sx.zeros(2)
        self.xp = sx
        self.log_evidence = None
        self.log_evidence_error = None

    def __len__(self):
        return 2

    def log_weights(self, beta):
        return None

    def log_evidence_ratio(self, beta):
        return 0.0

    def log_evidence_ratio_variance(self, beta):
        return 0.0

    def resample(self, beta, n_samples=None, rng=None):
        return self

    def to_standard_samples(self):
        return self


class _Stop(Exception):
    pass


class C06(Check):
    pid = "C06"
    required_labels = ["c06/strictly_increasing", "c06/at_most_one", "c06/min_step_honoured", "c06/fixed_exact_iterations", "c06/fixed_ends_at_one", "c06/ladder_increasing", "c06/ends_at_one"]
    stubs = [
        "step harness: user functions / flow unused; population symbolic; target efficiency symbolic (scalar or two-point ramp) or set through the public setter",
        "fixed-schedule harness: logging-stripped copy of SMCSampler.sample compiled from current source with SMCSamples / effective_sample_size bound to null stand-ins (the ladder does not depend on the population when adaptive=False); n_steps is a symbolic bit-vector converted with fpUnsignedToFP",
    ]
    outside = [
        "n_steps beyond the stated bound",
        "bisection depth beyond tolerance 1/8 (polynomial degree)",
        "log output",
    ]
    bounds = {
        "quick": {"step": "N<=3, beta_prev in {0,1/2}, tol 1/4", "fixed_n_steps_max": 12},
        "thorough": {"step": "N<=3, beta_prev in {0,1/2,3/4}, tol 1/4 (1/8 for N=2 from 0 and N=3 from 1/2 with the step cap)", "fixed_n_steps_max": 52},
    }

    def configs(self, tier):
        out = [c for c in beta_step.configs(tier) if c["kind"] != "setter"]
        K = 12 if tier == "quick" else 52
        # one configuration per block of n values keeps each query small
        blocks = [(a, a + 3) for a in range(1, K, 4)]
        for lo, hi in blocks:
            out.append({"name": f"fixed-n{lo}-{hi}", "kind": "fixed", "lo": lo, "hi": hi, "timeout_ms": 600000})
        for c in _Loop06().configs(tier):
            c["kind"] = "loop"
            c["name"] = "loop-" + c["name"]
            out.append(c)
        return out

    def ctx_for(self, cfg, seed):
        if cfg["kind"] == "fixed":
            c = sx.Ctx(self.pid, seed=seed, timeout_ms=cfg.get("timeout_ms", 600000), sort="F", fp_bits=64)
            return c
        if cfg["kind"] == "loop":
            return _Loop06().ctx_for(cfg, seed)
        return sx.Ctx(self.pid, D=cfg.get("D", 1), seed=seed, timeout_ms=cfg.get("timeout_ms", 60000))

    def harness(self, cfg):
        if cfg["kind"] == "fixed":
            return self.h_fixed(cfg)
        if cfg["kind"] == "loop":
            return _Loop06().harness(cfg)
        return beta_step.harness(cfg, PROPS)

    # ------------------------------------------------------------------
    def h_fixed(self, cfg):
        from aspire.samplers.smc.base import SMCSampler

        lo, hi = cfg["lo"], cfg["hi"]
        sample_fn, removed = strip_logging(
            SMCSampler.sample,
            {
                "SMCSamples": type("S", (), {"from_samples": staticmethod(lambda s, **k: s)}),
                "effective_sample_size": lambda lw: 1.0,
            },
        )

        class Smp(SMCSampler):
            def draw_initial_samples(self, n):
                return NullPop()

            def fit_preconditioning_transform(self, x):
                return x

            def mutate(self, samples, beta, n_steps=None):
                self.n_mutate += 1
                if self.n_mutate > hi + 2:
                    raise _Stop()
                return samples

        def h(ctx):
            ctx.notes["fp_exact_timeout_ms"] = cfg.get("exact_timeout_ms", 240000)
            n_bv = z3.BitVec("n_steps", 8)
            ctx.add_assume(z3.And(z3.UGE(n_bv, lo), z3.ULE(n_bv, hi)))
            n_fp = sx.Array(z3.fpUnsignedToFP(z3.RNE(), n_bv, z3.Float64()), sx.float64)
            smp = Smp(log_likelihood=None, log_prior=None, dims=1, prior_flow=None, xp=sx, rng=object())
            smp.n_mutate = 0
            smp.sampler_kwargs = {}
            stopped = False
            try:
                sample_fn(smp, 2, n_steps=n_fp, adaptive=False, store_sample_history=False)
            except _Stop:
                stopped = True
            # branch feasibility is over-approximated in the F sort: decide the
            # path bit-precisely once before posing obligations on it
            res, _ = ctx.check([], timeout_ms=cfg.get("path_timeout_ms", 240000))
            if res == "unsat":
                raise core.Infeasible()
            unverified = res == "unknown"  # keep going: failures below are then only candidates
            if stopped:
                ctx.prove(False, "c06/fixed_terminates", detail={"iterations": smp.n_mutate, "path_unverified": unverified})
                return
            k = smp.n_mutate
            betas = smp.history.beta
            ctx.prove(len(betas) == k, "c06/fixed_history_len")
            ctx.prove(n_bv == k, "c06/fixed_exact_iterations", detail={"iterations": k, "path_unverified": unverified})
            last = betas[-1]
            if isinstance(last, sx.Array):
                ctx.prove(z3.fpEQ(sx.term(last), z3.FPVal(1.0, z3.Float64())), "c06/fixed_ends_at_one")
            else:
                ctx.prove(last == 1.0, "c06/fixed_ends_at_one")
            prev = None
            inc = []
            for b in betas:
                tb = sx.term(b) if isinstance(b, sx.Array) else z3.FPVal(float(b), z3.Float64())
                if prev is not None:
                    inc.append(z3.fpGT(tb, prev))
                else:
                    inc.append(z3.fpGT(tb, z3.FPVal(0.0, z3.Float64())))
                prev = tb
            ctx.prove(z3.And(*inc), "c06/fixed_increasing")

        return h

    # ------------------------------------------------------------------
    def to_cex(self, fl):
        if fl["cfg"]["kind"] == "loop":
            return _Loop06().to_cex(fl)
        if fl["cfg"]["kind"] == "fixed":
            d = fl.get("detail") or {}
            cex = {"cfg": fl["cfg"], "label": fl["label"], "n_steps": int(fl["env"].get("n_steps") or 0), "detail": d}
            if d.get("candidate_from_abstraction") or d.get("path_unverified"):
                # the bit-precise query did not finish: every n of the block is a
                # candidate; only a replay on the real code can confirm one
                cex["n_candidates"] = list(range(fl["cfg"]["lo"], fl["cfg"]["hi"] + 1))
            return cex
        return beta_step.to_cex(fl)

    def replay(self, cex):
        if cex["cfg"]["kind"] == "loop":
            return _Loop06().replay(cex)
        if cex["cfg"]["kind"] == "fixed":
            for n in [cex["n_steps"]] + list(cex.get("n_candidates", [])):
                ok, msg, info = replay_fixed(n)
                cex["_info"] = info
                if ok:
                    cex["n_steps"] = n
                    return ok, msg
            return False, msg
        ok, msg, info = beta_step.replay_step(cex, PROPS)
        cex["_info"] = info
        return ok, msg

    def finding_of(self, cex):
        if cex["cfg"]["kind"] == "loop":
            info = cex.get("_info") or {}
            betas = info.get("betas") or []
            stuck = any(b2 == b1 for b1, b2 in zip(betas, betas[1:]))
            if cex["cfg"].get("schedule") == "adaptive_free" and stuck and "ladder" in str(cex.get("label")):
                return "C06-D4"
            return None
        if cex["cfg"]["kind"] == "fixed":
            info = cex.get("_info") or {}
            return "C06-D3" if info.get("iterations") == info.get("n", -9) + 1 and info.get("final") == 1.0 else None
        info = cex.get("_info") or {}
        if info.get("exception") == "ZeroDivisionError" and cex["cfg"].get("min_step") == "cap":
            return "C06-D2"
        if (
            cex.get("label") == "c06/strictly_increasing"
            and cex["cfg"].get("min_step") == "zero"
            and info.get("beta") == info.get("beta_prev")
        ):
            return "C06-D4"
        return None

    def known_finding_probes(self):
        out = []
        d4 = {
            "cfg": {"kind": "step", "N": 4, "beta_prev": 0.0, "tol": 1e-6, "D": 1, "pop": "ll", "target": "float", "target_arg": 0.5, "min_step": "zero", "name": "D4"},
            "label": "c06/strictly_increasing",
            "env": {"ll_0": 0.0, "ll_1": -1e9, "ll_2": -1e9, "ll_3": -1e9},
        }
        out.append(("C06-D4", d4))
        d2 = {
            "cfg": {"kind": "step", "N": 3, "beta_prev": 0.0, "tol": 0.25, "D": 1, "pop": "ll", "target": "float", "target_arg": 0.5, "min_step": "cap", "name": "D2"},
            "label": "c06/no_exception",
            "env": {"ll_0": 0.0, "ll_1": 0.0, "ll_2": 0.0},
        }
        out.append(("C06-D2", d2))
        out.append(("C06-D3", {"cfg": {"kind": "fixed", "name": "D3"}, "label": "c06/fixed_exact_iterations", "n_steps": 10}))
        return out


def replay_fixed(n):
    """Run the real sample() loop with NumPy, a trivial population and a
    counting kernel: a fixed schedule of n steps must perform exactly n
    iterations and end at exactly 1."""
    from aspire.samplers.smc.base import SMCSampler
    from aspire.samples import Samples

    if not n or n < 1:
        return False, "no n_steps in the model", {}

    class Smp(SMCSampler):
        def draw_initial_samples(self, m):
            return Samples(x=np.zeros((m, 1)), log_likelihood=np.zeros(m), log_prior=np.zeros(m), log_q=np.zeros(m))

        def mutate(self, samples, beta, n_steps=None):
            self.n_mutate += 1
            if self.n_mutate > n + 5:
                raise RuntimeError("does not terminate")
            return samples

    smp = Smp(log_likelihood=None, log_prior=None, dims=1, prior_flow=None, xp=np, rng=np.random.default_rng(0))
    smp.n_mutate = 0
    smp.sampler_kwargs = {}
    with np.errstate(all="ignore"):
        try:
            smp.sample(4, n_steps=n, adaptive=False, store_sample_history=False)
        except RuntimeError as e:
            return True, f"n_steps={n}: {e}", {"n": n, "iterations": smp.n_mutate}
    bad = []
    if smp.n_mutate != n:
        bad.append(f"n_steps={n} performed {smp.n_mutate} iterations")
    if smp.history.beta[-1] != 1.0:
        bad.append(f"final temperature {smp.history.beta[-1]!r}")
    if any(b2 <= b1 for b1, b2 in zip(smp.history.beta, smp.history.beta[1:])):
        bad.append("ladder not strictly increasing")
    info = {"n": n, "iterations": smp.n_mutate, "final": smp.history.beta[-1]}
    return (len(bad) > 0, "; ".join(bad) if bad else f"n_steps={n}: exactly n iterations ending at 1.0", info)


if __name__ == "__main__":
    raise SystemExit(main(C06()))
