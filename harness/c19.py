"""C19 -- temporary overrides are fully restored on every exit path (engine CH)."""

import argparse
import os
import sys

sys.path.insert(0, os.path.dirname(os.path.dirname(os.path.abspath(__file__))))
sys.path.insert(0, os.path.join(os.environ.get("ASPIRE_REPO", "/repo"), "src"))

from ch import run_crosshair as rc  # noqa: E402

CONDITIONS = [
    {"fn": "_run", "expect": "confirm", "timeout": 240},
    {"fn": "_run_deep", "expect": "confirm", "timeout": 600, "tiers": ("thorough",)},
    {"fn": "_run_fault", "expect": "confirm", "timeout": 240},
    {"fn": "_run_handles", "expect": "confirm", "timeout": 240},
    {"fn": "_twin", "expect": "refute", "timeout": 60},
]


def main():
    ap = argparse.ArgumentParser()
    ap.add_argument("--tier", default=os.environ.get("VERIF_TIER", "quick"))
    ap.add_argument("--replay", default=None)
    a = ap.parse_args()
    if a.replay:
        ok = rc.replay_file(a.replay)
        if ok:
            print(f"VIOLATION property=C19 replay={a.replay}")
        return 1 if ok else 0
    tier = a.tier if a.tier in ("quick", "thorough") else "quick"
    return rc.main(
        "C19",
        "ch.c19_contexts",
        CONDITIONS,
        tier,
        explain={
            "text": "CrossHair symbolic execution of a program-encoded nesting of the real Aspire.enable_pool / PoolHandler and Aspire.auto_checkpoint contexts with an exception injected at a symbolic position",
            "functions": ["aspire/utils.py:PoolHandler.__init__", "aspire/utils.py:PoolHandler.__enter__", "aspire/utils.py:PoolHandler.__exit__", "aspire/aspire.py:Aspire.enable_pool", "aspire/aspire.py:Aspire.auto_checkpoint", "aspire/aspire.py:Aspire.__init__"],
        },
        stubs=["multiprocessing pool -> FakePool counting close()/join()", "user callables accept map_fn"],
        outside=["an exception raised inside PoolHandler.__enter__ itself (a pool whose .map attribute raises)", "nesting deeper than the bound", "pool-shutdown faults at nesting depth > 2"],
        bounds={"nesting_depth": 3 if tier == "quick" else 4, "exception_positions": "none, and after entering each level, and in the innermost body", "flags": "close_pool, parallelize_prior, pre-existing checkpoint defaults", "pool_shutdown_fault": "close() or join() of the pool at level 0 or 1 raises (depth <= 2)", "handles": "auto_checkpoint handles created up front / inside an already finished context and entered later (depth <= 3)"},
    )


if __name__ == "__main__":
    raise SystemExit(main())
