"""C05 -- kernels are handed the correct (tempered) target in the
preconditioned space.

Real code executed symbolically: SMCSampler.__init__/log_prob,
MiniPCNSMC.log_prob, BlackJAXSMC.__init__/log_prob, MCMCSampler.log_prob,
Sampler.log_likelihood (the counting wrapper), SMCSamples.log_p_t,
utils.update_at_indices, utils.to_numpy; with a stub transform (arbitrary
symbolic pre-image and log-Jacobian) and with the real IdentityTransform /
CompositeTransform.  R sort for the formula, F sort (Float64 / Float32) for the
special-value clauses."""

from __future__ import annotations

import math

import numpy as np

from harness.common import Check, main, sx, core, z3
from harness.stubs import FlowStub, StubTransform, Target, UserFns
from harness.util import env_array

SAMPLERS = ["SMCSampler", "MiniPCNSMC", "BlackJAXSMC", "MCMCSampler"]


def get_sampler_class(name):
    if name == "SMCSampler":
        from aspire.samplers.smc.base import SMCSampler as C
    elif name == "MiniPCNSMC":
        from aspire.samplers.smc.minipcn import MiniPCNSMC as C
    elif name == "BlackJAXSMC":
        from aspire.samplers.smc.blackjax import BlackJAXSMC as C
    elif name == "EmceeSMC":
        from aspire.samplers.smc.emcee import EmceeSMC as C
    else:
        from aspire.samplers.mcmc import MCMCSampler as C
    return C


class FpFns:
    """FP-sort stand-ins: per call fresh FP values (any value incl. inf/NaN)."""

    def __init__(self, ctx):
        self.ctx = ctx
        self.n = 0
        self.values = {}

    def fresh(self, tag, n):
        k = len(self.values.get(tag, [])) + 1
        v = sx.sym(f"{tag}{k}", n)
        self.values.setdefault(tag, []).append(v)
        return v


class C05(Check):
    pid = "C05"
    required_labels = ["target_formula", "fp/zero_prior", "fp/no_nan"]
    stubs = [
        "user log_likelihood / log_prior / proposal log_prob -> uninterpreted functions L, PI, Q of the coordinates (R sort); arbitrary FP values incl. +-inf/NaN (F sort)",
        "preconditioning transform -> stub returning arbitrary symbolic (x, log|det dx/dz|); additionally the real IdentityTransform and CompositeTransform (logit / probit / periodic)",
        "FP exp/log are not involved in these obligations",
        "immutable configurations: the symbolic arrays refuse item assignment and offer x.at[idx].set(v), the JAX discipline that utils.update_at_indices supports",
    ]
    outside = [
        "flow-based preconditioning's neural map (covered by the stub transform: the formula may not depend on which transform it is)",
        "the kernels themselves (minipcn, emcee, blackjax)",
        "jax tracing of BlackJAXSMC.log_prob",
    ]
    bounds = {"quick": {"batch": 2, "d": 2, "fp": ["Float64", "Float32"]}, "thorough": {"batch": 3, "d": 3, "fp": ["Float64", "Float32"]}}

    def configs(self, tier):
        out = []
        b, d = (2, 2) if tier == "quick" else (3, 3)
        for s in SAMPLERS:
            out.append({"name": f"formula-{s}-stub", "kind": "formula", "sampler": s, "transform": "stub", "batch": b, "d": d})
        for tr in ("identity", "logit", "probit", "periodic"):
            for s in ("SMCSampler", "MCMCSampler"):
                out.append({"name": f"formula-{s}-{tr}", "kind": "formula", "sampler": s, "transform": tr, "batch": b, "d": 2})
        for s in SAMPLERS:
            for bits in (64, 32):
                out.append({"name": f"fp{bits}-{s}", "kind": "fp", "sampler": s, "bits": bits, "batch": 2, "d": 1})
        # the same special-value clauses with immutable arrays (the JAX
        # discipline: item assignment raises, updates go through x.at[...].set)
        for s in ("SMCSampler", "MiniPCNSMC", "BlackJAXSMC"):
            out.append({"name": f"fp64-{s}-immutable", "kind": "fp", "sampler": s, "bits": 64, "batch": 2, "d": 1, "immutable": True})
        return out

    def ctx_for(self, cfg, seed):
        if cfg["kind"] == "fp":
            return sx.Ctx(self.pid, seed=seed, timeout_ms=120000, sort="F", fp_bits=cfg["bits"])
        return sx.Ctx(self.pid, seed=seed, timeout_ms=60000)

    # ------------------------------------------------------------------
    def harness(self, cfg):
        return self.h_formula(cfg) if cfg["kind"] == "formula" else self.h_fp(cfg)

    def _transform(self, ctx, cfg):
        import aspire.transforms as T

        d = cfg["d"]
        tr = cfg["transform"]
        if tr == "stub":
            return StubTransform(ctx, d)
        if tr == "identity":
            return T.IdentityTransform(xp=sx)
        lo, hi = sx.sym("lo", d), sx.sym("hi", d)
        for a, b in zip(sx.terms(lo), sx.terms(hi)):
            ctx.add_assume(a < b)
        params = [f"p{k}" for k in range(d)]
        return T.CompositeTransform(
            parameters=params,
            periodic_parameters=["p0"] if tr == "periodic" else [],
            prior_bounds={p: [lo[k], hi[k]] for k, p in enumerate(params)},
            bounded_to_unbounded=tr in ("logit", "probit"),
            bounded_transform=tr if tr in ("logit", "probit") else "logit",
            affine_transform=False,
            xp=sx,
        )

    def h_formula(self, cfg):
        b, d, sname = cfg["batch"], cfg["d"], cfg["sampler"]

        def h(ctx):
            fns = UserFns(d)
            tgt = Target(ctx, d, fns)
            flow = FlowStub(ctx, d, fns)
            tr = self._transform(ctx, cfg)
            S = get_sampler_class(sname)
            smp = S(
                log_likelihood=tgt.log_likelihood,
                log_prior=tgt.log_prior,
                dims=d,
                prior_flow=flow,
                xp=sx,
                preconditioning_transform=tr,
            )
            z = sx.sym("z", (b, d))
            if cfg["transform"] == "periodic":
                lo, hi = tr._periodic_transform.lower, tr._periodic_transform.upper
                ctx.add_assume(z3.And(sx.term(z[0, 0]) >= sx.term(lo[0]) - 2 * (sx.term(hi[0]) - sx.term(lo[0]))))
                for i in range(b):
                    ctx.add_assume(
                        z3.And(
                            sx.term(z[i, 0]) >= sx.term(lo[0]) - 2 * (sx.term(hi[0]) - sx.term(lo[0])),
                            sx.term(z[i, 0]) <= sx.term(hi[0]) + 2 * (sx.term(hi[0]) - sx.term(lo[0])),
                        )
                    )
            n0 = smp.n_likelihood_evaluations
            if sname == "MCMCSampler":
                beta = None
                out = sx.asarray(smp.log_prob(z))
            else:
                beta = sx.sym("beta")
                bt = sx.term(beta)
                ctx.add_assume(z3.And(bt >= 0, bt <= 1))  # both ends of the ladder included
                out = sx.asarray(smp.log_prob(z, beta))
            ctx.prove(out.shape == (b,), "shape")
            # specification: evaluate at the pre-image the transform returned
            if cfg["transform"] == "stub":
                (zz, X, LJ) = tr.inverse_calls[0]
                ctx.prove(len(tr.inverse_calls) == 1, "one_inverse_call")
                for a, c in zip(sx.terms(zz), sx.terms(z)):
                    ctx.prove(a == c, "inverse_called_on_z")
            else:
                X, LJ = tr.inverse(z)
            o = sx.terms(out)
            for i in range(b):
                xi = sx.terms(X[i])
                Lq, Ll, Lp = fns.Q(*xi), fns.L(*xi), fns.PI(*xi)
                lj = sx.term(LJ[i])
                if beta is None:
                    want = Ll + Lp + lj
                else:
                    want = (1 - bt) * Lq + bt * (Ll + Lp) + lj
                ctx.prove(o[i] == want, "target_formula")
            ctx.prove(smp.n_likelihood_evaluations - n0 == b and tgt.n_points == b, "likelihood_count")

            # translator validation: the same call on the real class with NumPy and
            # closed-form user functions, against the symbolic output under a model
            if cfg["transform"] in ("stub", "identity"):
                def Lf(*a):
                    return -0.5 * sum((v - 0.3) ** 2 for v in a) + 0.1 * a[0]

                def Pf(*a):
                    return -0.7 * sum(abs(v) for v in a) - 0.2

                def Qf(*a):
                    return -0.25 * sum(v * v for v in a) + 0.05 * sum(a) - 1.0

                def runner(env):
                    import aspire.transforms as T

                    zz = np.asarray(env_array(env, "z", (b, d)))
                    if cfg["transform"] == "stub":
                        Xs = np.asarray(env_array(env, "tx1", (b, d)))
                        LJs = np.asarray(env_array(env, "tlj1", (b,)))

                        class Tr:
                            xp = np
                            dtype = None

                            def inverse(self, z_):
                                return Xs.copy(), LJs.copy()

                        tr2 = Tr()
                    else:
                        tr2 = T.IdentityTransform(xp=np)

                    class Flow:
                        def log_prob(self, x):
                            return np.array([Qf(*r) for r in np.asarray(x)])

                    s2 = get_sampler_class(sname)(
                        log_likelihood=lambda s_: np.array([Lf(*r) for r in np.asarray(s_.x)]),
                        log_prior=lambda s_: np.array([Pf(*r) for r in np.asarray(s_.x)]),
                        dims=d,
                        prior_flow=Flow(),
                        xp=np,
                        preconditioning_transform=tr2,
                    )
                    if sname == "MCMCSampler":
                        return {"lp": np.asarray(s2.log_prob(zz))}
                    bv = env.get("beta")
                    return {"lp": np.asarray(s2.log_prob(zz, 0.5 if bv is None else float(bv)))}

                ctx.validate({"lp": o}, runner, fns={"L": Lf, "PI": Pf, "Q": Qf})

        return h

    def h_fp(self, cfg):
        sname, b, d = cfg["sampler"], cfg["batch"], cfg["d"]

        def h(ctx):
            if cfg.get("immutable"):
                ctx.notes["immutable_arrays"] = True
            F = FpFns(ctx)
            Z = lambda t: z3.Not(z3.Or(z3.fpIsNaN(t), z3.fpIsInf(t)))  # noqa: E731

            class Flow:
                def log_prob(self, x):
                    return F.fresh("Q", len(x))

            class Tr:
                xp = sx
                dtype = None

                def inverse(self, z):
                    return z, F.fresh("LJ", len(z))

                def fit(self, x):
                    return x

            S = get_sampler_class(sname)
            smp = S(
                log_likelihood=lambda s: F.fresh("L", len(s.x)),
                log_prior=lambda s: F.fresh("P", len(s.x)),
                dims=d,
                prior_flow=Flow(),
                xp=sx,
                preconditioning_transform=Tr(),
            )
            z = sx.sym("z", (b, d))
            for t in sx.terms(z):
                ctx.add_assume(Z(t))
            if sname == "MCMCSampler":
                out = sx.asarray(smp.log_prob(z))
                beta = None
            else:
                beta = sx.sym("beta")
                bt = sx.term(beta)
                one, zero = sx.OPS.const(1.0), sx.OPS.const(0.0)
                # both ends of the ladder included: at beta = 0 the product 0 * (-inf) of the
                # tempered value is NaN and must come out as -inf like everywhere else
                ctx.add_assume(z3.And(z3.fpGEQ(bt, zero), z3.fpLEQ(bt, one)))
                out = sx.asarray(smp.log_prob(z, beta))
            o = sx.terms(out)
            P = sx.terms(F.values["P"][0])
            LJ = sx.terms(F.values["LJ"][0])
            Q = sx.terms(F.values["Q"][0]) if "Q" in F.values else [None] * b
            minf = z3.fpMinusInfinity(sx.OPS.sort)
            big = z3.FPVal(1e10, sx.OPS.sort)
            for i in range(b):
                pre = [P[i] == minf, Z(LJ[i])]
                if Q[i] is not None:
                    pre.append(Z(Q[i]))
                if beta is None:
                    # plain MCMC: never a finite number
                    ctx.prove(z3.Implies(z3.And(*pre), z3.Not(Z(o[i]))), "fp/zero_prior")
                else:
                    ctx.prove(z3.Implies(z3.And(*pre), o[i] == minf), "fp/zero_prior")
                    ctx.prove(z3.Not(z3.fpIsNaN(o[i])), "fp/no_nan")
                    # finite inputs: the guard must not fire (the value itself is pinned
                    # by the real-sort obligation `target_formula`)
                    L = sx.terms(F.values["L"][0])
                    fin = z3.And(Z(P[i]), Z(L[i]), Z(Q[i]), Z(LJ[i]), z3.fpLEQ(z3.fpAbs(P[i]), big), z3.fpLEQ(z3.fpAbs(L[i]), big), z3.fpLEQ(z3.fpAbs(Q[i]), big), z3.fpLEQ(z3.fpAbs(LJ[i]), big))
                    ctx.prove(z3.Implies(fin, Z(o[i])), "fp/finite_in_finite_out")

        return h

    # ------------------------------------------------------------------
    def to_cex(self, fl):
        env = {k: v for k, v in fl["env"].items() if k != "__purified__"}
        return {"cfg": fl["cfg"], "label": fl["label"], "env": env, "purified": fl["env"].get("__purified__", {})}

    def replay(self, cex):
        return replay_c05(cex)


def replay_c05(cex):
    """Real sampler.log_prob on NumPy with table-driven user functions taken
    from the model; independent oracle for the tempered formula and the
    special-value clauses."""
    import aspire.transforms as T

    cfg = cex["cfg"]
    env = cex["env"]
    b, d, sname = cfg["batch"], cfg["d"], cfg["sampler"]
    S = get_sampler_class(sname)
    bad = []

    def fv(name, default=0.0):
        v = env.get(name, default)
        if isinstance(v, str):
            v = float(v)
        return default if v is None else float(v)

    if cfg["kind"] == "fp":
        L = np.array([fv(f"L1_{i}") for i in range(b)])
        P = np.array([fv(f"P1_{i}") for i in range(b)])
        Q = np.array([fv(f"Q1_{i}") for i in range(b)])
        LJ = np.array([fv(f"LJ1_{i}") for i in range(b)])
        dt = np.float64 if cfg["bits"] == 64 else np.float32
        L, P, Q, LJ = (a.astype(dt) for a in (L, P, Q, LJ))
        beta = dt(fv("beta", 1.0))
        xpr = np
        if cfg.get("immutable"):
            # immutable arrays: replay on JAX
            import jax

            jax.config.update("jax_enable_x64", True)
            import jax.numpy as jnp

            xpr = jnp
            L, P, Q, LJ = (jnp.asarray(a) for a in (L, P, Q, LJ))

        class Flow:
            def log_prob(self, x):
                return xpr.asarray(Q)

        class Tr:
            xp = xpr
            dtype = None

            def inverse(self, z):
                return z, xpr.asarray(LJ)

        smp = S(
            log_likelihood=lambda s: xpr.asarray(L),
            log_prior=lambda s: xpr.asarray(P),
            dims=d,
            prior_flow=Flow(),
            xp=xpr,
            dtype=dt,
            preconditioning_transform=Tr(),
        )
        z = xpr.zeros((b, d), dtype=dt)
        L, P, Q, LJ = (np.asarray(a) for a in (L, P, Q, LJ))
        with np.errstate(all="ignore"):
            out = np.asarray(smp.log_prob(z) if sname == "MCMCSampler" else smp.log_prob(z, beta))
            for i in range(b):
                fin = np.isfinite(LJ[i]) and (sname == "MCMCSampler" or np.isfinite(Q[i]))
                if P[i] == -np.inf and fin:
                    if sname == "MCMCSampler":
                        if np.isfinite(out[i]):
                            bad.append(f"zero-prior point got finite log-density {out[i]}")
                    elif out[i] != -np.inf:
                        bad.append(f"zero-prior point got log-density {out[i]} instead of -inf")
                if sname != "MCMCSampler":
                    if np.isnan(out[i]):
                        bad.append("NaN propagated to the kernel")
                    if all(np.isfinite(v) for v in (L[i], P[i], Q[i], LJ[i])):
                        want = (dt(1) - beta) * Q[i] + beta * (L[i] + P[i]) + LJ[i]
                        if not np.isnan(want) and out[i] != want and abs(out[i] - want) > 1e-5 * max(1, abs(want)):
                            bad.append(f"finite inputs: got {out[i]} expected {want}")
        return (len(bad) > 0, "; ".join(bad[:3]) if bad else "all C05 FP clauses hold on this input")

    # formula replay: closed-form user functions (any deterministic function
    # is allowed; the violation must show for generic ones)
    def Lf(x):
        return -0.5 * np.sum((x - 0.3) ** 2, axis=-1) + 0.1 * x[..., 0]

    def Pf(x):
        return -np.sum(np.abs(x), axis=-1) * 0.7 - 0.2

    def Qf(x):
        return -0.25 * np.sum(x**2, axis=-1) + 0.05 * np.sum(x, axis=-1) - 1.0

    class Flow:
        def log_prob(self, x):
            return Qf(np.asarray(x))

    rngs = np.random.default_rng(0)
    z = np.asarray(env_array(env, "z", (b, d)))
    if np.all(z == 0):
        z = rngs.normal(size=(b, d))
    tr_kind = cfg["transform"]
    if tr_kind == "stub":
        Xs = rngs.normal(size=(b, d)) + 1.0
        LJs = rngs.normal(size=(b,))
        seen = {}

        class Tr:
            xp = np
            dtype = None

            def inverse(self, zz):
                seen["z"] = np.array(zz)
                return Xs.copy(), LJs.copy()

        tr = Tr()
    elif tr_kind == "identity":
        tr = T.IdentityTransform(xp=np)
    else:
        lo = np.asarray(env_array(env, "lo", (d,)))
        hi = np.asarray(env_array(env, "hi", (d,), default=1.0))
        if np.any(hi <= lo):
            lo, hi = np.zeros(d), np.ones(d)
        params = [f"p{k}" for k in range(d)]
        tr = T.CompositeTransform(
            parameters=params,
            periodic_parameters=["p0"] if tr_kind == "periodic" else [],
            prior_bounds={p: [lo[k], hi[k]] for k, p in enumerate(params)},
            bounded_to_unbounded=tr_kind in ("logit", "probit"),
            bounded_transform=tr_kind if tr_kind in ("logit", "probit") else "logit",
            affine_transform=False,
            xp=np,
        )
    count = {"n": 0}

    def Lw(s):
        count["n"] += len(s.x)
        if s.log_prior is None:
            bad.append("likelihood called before the prior was attached")
        return Lf(np.asarray(s.x))

    smp = S(log_likelihood=Lw, log_prior=lambda s: Pf(np.asarray(s.x)), dims=d, prior_flow=Flow(), xp=np, preconditioning_transform=tr)
    beta = float(env.get("beta") or 0.5)
    with np.errstate(all="ignore"):
        out = np.asarray(smp.log_prob(z.copy()) if sname == "MCMCSampler" else smp.log_prob(z.copy(), beta))
        if tr_kind == "stub":
            X, LJ = Xs, LJs
            if not np.array_equal(seen.get("z"), z):
                bad.append("transform.inverse was not called on z")
        else:
            X, LJ = tr.inverse(z.copy())
        if sname == "MCMCSampler":
            want = Lf(X) + Pf(X) + LJ
        else:
            want = (1 - beta) * Qf(X) + beta * (Lf(X) + Pf(X)) + LJ
        if out.shape != want.shape or np.max(np.abs(out - want)) > 1e-9 * max(1.0, float(np.max(np.abs(want)))):
            bad.append(f"log_prob {out.tolist()} expected {want.tolist()}")
        if smp.n_likelihood_evaluations != b:
            bad.append(f"n_likelihood_evaluations {smp.n_likelihood_evaluations} expected {b}")
    return (len(bad) > 0, "; ".join(bad[:3]) if bad else "all C05 clauses hold on this input")


if __name__ == "__main__":
    raise SystemExit(main(C05()))
