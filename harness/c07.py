"""C07 -- adaptive temperature steps meet the ESS target and are maximal.

Real code executed symbolically: SMCSampler.determine_beta (adaptive branch),
current_target_efficiency, the target_efficiency setter,
SMCSamples.unnormalized_log_weights / log_weights, utils.effective_sample_size
(see harness.beta_step).  The specification-side ESS is the harness's own
(sum w)^2 / sum w^2 with w_i = exp((b - b_prev)(ll+lp-lq)_i)."""

from __future__ import annotations

from harness import beta_step
from harness.common import Check, main, sx

PROPS = {"C07"}


class C07(Check):
    pid = "C07"
    required_labels = ["c07/meets_target", "c07/maximal", "c07/full_step", "c07/forced_by_floor", "c07/ramp"]
    stubs = [
        "population symbolic (log-likelihood; log-prior and proposal too in the 'all' configurations)",
        "target efficiency: symbolic scalar / symbolic two-point ramp written to the sampler's private fields, or a float through the public setter",
        "temperatures and tolerance concrete (dyadic), so every probe is a dyadic rational and every weight a monomial in the exp atoms",
    ]
    outside = ["tolerances finer than 1/8 (polynomial degree); N = 4 and N = 3 with tolerance 1/8 from beta_prev = 0 (did not finish in 40 minutes)", "N beyond the bound"]
    bounds = {
        "quick": {"N": [2, 3], "beta_prev": [0, 0.5], "tol": [0.25]},
        "thorough": {"N": [2, 3], "beta_prev": [0, 0.5, 0.75], "tol": [0.25, "0.125 (N=2 from 0; N=3 from 1/2 with the step cap)"], "ramp_rates": [1, 2]},
    }

    def configs(self, tier):
        return [c for c in beta_step.configs(tier) if c["kind"] != "fixed_step"]

    def ctx_for(self, cfg, seed):
        return sx.Ctx(self.pid, D=cfg.get("D", 1), seed=seed, timeout_ms=cfg.get("timeout_ms", 60000))

    def harness(self, cfg):
        return beta_step.harness(cfg, PROPS)

    def to_cex(self, fl):
        return beta_step.to_cex(fl)

    def replay(self, cex):
        ok, msg, info = beta_step.replay_step(cex, PROPS)
        cex["_info"] = info
        return ok, msg


if __name__ == "__main__":
    raise SystemExit(main(C07()))
