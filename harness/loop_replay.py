"""Replay of loop-harness counterexamples on the real code with plain NumPy.

The solver's model supplies the initial coordinates, the kernel outputs, the
resample indices and the values of the user functions at those points; the
scenario of the configuration (plain run / interrupted-and-resumed run /
checkpoint cadence / random-source routing) is re-executed on the unmodified
aspire classes over concrete fake kernels, and every clause of the requested
properties is re-evaluated by an independent float oracle (recomputation from
the recorded populations with scipy.special.logsumexp)."""

from __future__ import annotations

import inspect
import math
import os
import pickle
import re
import shutil
import sys
import tempfile
import types

import numpy as np

from harness.smc_loop import SCHEDULES


def _f(v, default=0.0):
    if v is None:
        return default
    if isinstance(v, str):
        try:
            return float(v)
        except ValueError:
            return default
    return float(v)


class Model:
    """Concrete user functions / draws derived from a solver model."""

    def __init__(self, cex):
        self.env = cex.get("env") or {}
        self.d = cex["cfg"].get("d", 1)
        self.table = {"L": {}, "PI": {}, "Q": {}}
        pat = re.compile(r"^(L|PI|Q)\(([^()]*)\)$")
        for k, v in (cex.get("purified") or {}).items():
            m = pat.match(" ".join(k.split()))
            if not m or v is None:
                continue
            args = [a.strip() for a in m.group(2).split(",")]
            for a in args:
                # coordinates the solver left unconstrained: fix a distinct value
                if re.match(r"^[A-Za-z_]\w*$", a) and self.env.get(a) is None:
                    self.env[a] = round(((abs(hash(a)) % 2000003) / 2000003.0) * 4.0 - 2.0, 9)
            try:
                pt = tuple(round(_f(self.env.get(a), None) if self.env.get(a) is not None else float(a), 12) for a in args)
            except (TypeError, ValueError):
                continue
            self.table[m.group(1)][pt] = _f(v)

    def _fn(self, name, default):
        tab = self.table[name]

        def f(x):
            x = np.atleast_2d(np.asarray(x, dtype=float))
            out = np.empty(len(x))
            for i, r in enumerate(x):
                key = tuple(round(float(c), 12) for c in r)
                out[i] = tab[key] if key in tab else default(r)
            return out

        return f

    @property
    def L(self):
        return self._fn("L", lambda r: -0.5 * float(np.sum((r - 0.3) ** 2)) + 0.1 * float(r[0]))

    @property
    def PI(self):
        return self._fn("PI", lambda r: -0.7 * float(np.sum(np.abs(r))) - 0.2)

    @property
    def Q(self):
        return self._fn("Q", lambda r: -0.25 * float(np.sum(r**2)) + 0.05 * float(np.sum(r)) - 1.0)

    def array(self, name, shape, seed):
        rs = np.random.Generator(np.random.PCG64(abs(hash(name)) % (2**31) + seed))
        out = rs.normal(size=shape)
        for idx in np.ndindex(*shape):
            v = self.env.get(name + "_" + "_".join(str(i) for i in idx))
            if v is not None:
                out[idx] = _f(v)
        return out

    def index(self, tag, m, n):
        out = []
        for k in range(m):
            v = self.env.get(f"idx_{tag}_{k}")
            out.append(int(round(_f(v))) % n if v is not None else k % n)
        return np.asarray(out, dtype=int)


class _BitGen:
    def __init__(self, rng):
        self._rng = rng

    @property
    def state(self):
        return {"bit_generator": "SymStream", "stream": self._rng.stream, "counter": self._rng.counter}

    @state.setter
    def state(self, st):
        self._rng.stream = st["stream"]
        self._rng.counter = st["counter"]


class CRng:
    def __init__(self, model, stream="g", counter=0):
        self.model = model
        self.stream, self.counter = stream, counter
        self.bit_generator = _BitGen(self)
        self.p_seen = []
        self.idx_seen = []
        self.used = 0

    def _next(self):
        self.counter += 1
        self.used += 1
        return f"{self.stream}{self.counter}"

    def choice(self, n, size=None, replace=True, p=None):
        tag = self._next()
        self.p_seen.append(np.asarray(p, dtype=float))
        idx = self.model.index(tag, int(size), int(n))
        self.idx_seen.append(np.asarray(idx))
        return idx


class World:
    """Concrete counterpart of smc_loop.RunEnv."""

    current = None

    def __init__(self, cex, model, tag="ref", rng=None):
        self.cfg = cex["cfg"]
        self.model = model
        self.tag = tag
        self.d = self.cfg.get("d", 1)
        self.N = self.cfg["N"]
        self.rng = rng or CRng(model, "g", 0)
        self.n_points = 0
        self.ll_calls = 0
        self.fail_at = None
        self.bad = []
        self.kernel_inputs = []
        self.checkpoints = []
        self.n_draws = 0
        self.rng_constructed = []
        self.max_kernel = self.cfg.get("T", 2) + 3

    # user functions ----------------------------------------------------------
    def log_prior(self, s):
        return self.model.PI(np.asarray(s.x))

    def log_likelihood(self, s):
        self.ll_calls += 1
        n = len(s.x)
        self.n_points += n
        if self.fail_at is not None and self.ll_calls == self.fail_at:
            raise RuntimeError("injected fault")
        if s.log_prior is None or len(np.asarray(s.log_prior)) != n:
            self.bad.append("C17: likelihood called without the prior of these points attached")
        elif not np.allclose(np.asarray(s.log_prior, float), self.model.PI(np.asarray(s.x)), rtol=0, atol=1e-12, equal_nan=True):
            self.bad.append("C17: the attached prior does not belong to the points handed to the likelihood")
        return self.model.L(np.asarray(s.x))

    # flow ----------------------------------------------------------------------
    def flow(self):
        w = self

        class Flow:
            xp = np

            def log_prob(self, x):
                return w.model.Q(np.asarray(x))

            def sample_and_log_prob(self, n):
                w.n_draws += 1
                name = ("q" if w.tag == "ref" else f"q{w.tag}_") + str(w.n_draws)
                x = w.model.array(name, (int(n), w.d), 1)
                if getattr(w, "bounds", None) is not None:
                    lo, hi = w.bounds
                    inside = (x > lo + 1e-6 * (hi - lo)) & (x < lo + (1 - 1e-6) * (hi - lo))
                    x = np.where(inside, x, lo + (hi - lo) * (0.25 + 0.5 * (np.abs(x) % 1.0)))
                return x, w.model.Q(x)

        return Flow()

    def build(self):
        from harness.c05 import get_sampler_class

        S = get_sampler_class(self.cfg["sampler"])
        kw = {}
        self.rng_via = self.cfg.get("rng_via", "sample")
        if self.rng_via == "ctor" and self.cfg["sampler"] != "EmceeSMC":
            kw["rng"] = self.rng
        params = [f"p{k}" for k in range(self.d)]
        if self.cfg.get("precond") == "logit":
            import aspire.transforms as T

            lo = np.array([_f(self.model.env.get(f"plo_{k}"), 0.0) for k in range(self.d)])
            hi = np.array([_f(self.model.env.get(f"phi_{k}"), 1.0) for k in range(self.d)])
            if np.any(hi <= lo):
                lo, hi = np.zeros(self.d), np.ones(self.d)
            self.bounds = (lo, hi)
            kw["preconditioning_transform"] = T.CompositeTransform(
                parameters=params,
                prior_bounds={p: [lo[k], hi[k]] for k, p in enumerate(params)},
                bounded_to_unbounded=True,
                bounded_transform="logit",
                affine_transform=False,
                xp=np,
            )
        if self.cfg.get("dtype"):
            kw["dtype"] = np.float32 if self.cfg["dtype"] == "obj32" else self.cfg["dtype"]
        self.sampler = S(
            log_likelihood=self.log_likelihood,
            log_prior=self.log_prior,
            dims=self.d,
            prior_flow=self.flow(),
            xp=np,
            parameters=params,
            **kw,
        )
        if self.cfg["sampler"] == "EmceeSMC":
            self.sampler.rng = self.rng
        return self

    def kwargs(self):
        cfg = self.cfg
        from harness.smc_loop import schedule_kwargs

        kw = schedule_kwargs(cfg["schedule"], self.N)
        if cfg.get("n_final"):
            kw["n_final_samples"] = self.N + 1
        if cfg["sampler"] == "MiniPCNSMC":
            kw["sampler_kwargs"] = {"n_steps": 1}
            if self.rng_via == "sample":
                kw["rng"] = self.rng
        else:
            kw["sampler_kwargs"] = {"nsteps": 1, "progress": False}
            kw.pop("min_step", None)
            kw.pop("max_n_steps", None)
        return kw

    def run(self, **extra):
        World.current = self
        kw = self.kwargs()
        kw.update(extra)
        self.final = None
        self.error = None
        try:
            with np.errstate(all="ignore"):
                self.final = self.sampler.sample(getattr(self, "N_arg", self.N), **kw)
        except RuntimeError as e:
            self.error = e
        return self

    def callback(self, state):
        self.checkpoints.append(
            {
                "iteration": state.get("iteration"),
                "beta": state.get("meta", {}).get("beta"),
                "bytes": self.sampler.serialize_checkpoint(state),
                "live_state": state,
                "n_beta": len(state["history"].beta),
                "n_acc": len(state["history"].mcmc_acceptance),
                "x": np.array(state["samples"].x, dtype=float),
                "n_ll_points": self.n_points,
                "precision": precision_of(state["samples"]),
            }
        )


class CMiniPCN:
    def __init__(self, log_prob_fn, step_fn=None, rng=None, dims=None, target_acceptance_rate=None, xp=None):
        self.log_prob_fn, self.rng, self.dims = log_prob_fn, rng, dims

    def sample(self, z, n_steps=None):
        w = World.current
        w.kernel_inputs.append(np.array(z, dtype=float))
        if len(w.kernel_inputs) > w.max_kernel:
            raise RuntimeError("does not terminate")
        self.log_prob_fn(z)
        tag = self.rng._next() if hasattr(self.rng, "_next") else f"nogen{len(w.kernel_inputs)}"
        new = w.model.array(f"mx_{tag}", (len(z), self.dims), 2)
        return [np.asarray(z), new], types.SimpleNamespace(acceptance_rate=[0.25, 0.5])


class CEmcee:
    def __init__(self, nwalkers, ndim, log_prob_fn, args=(), vectorize=False, moves=None):
        self.nwalkers, self.ndim, self.log_prob_fn, self.args = nwalkers, ndim, log_prob_fn, args
        self.acceptance_fraction = np.array([0.25, 0.5])

    def run_mcmc(self, z, nsteps=None, progress=False, **kw):
        w = World.current
        w.kernel_inputs.append(np.array(z, dtype=float))
        if len(w.kernel_inputs) > w.max_kernel:
            raise RuntimeError("does not terminate")
        self.log_prob_fn(z, *self.args)
        rng = w.sampler.rng
        tag = rng._next() if hasattr(rng, "_next") else f"nogen{len(w.kernel_inputs)}"
        self._new = w.model.array(f"mx_{tag}", (self.nwalkers, self.ndim), 2)

    def get_autocorr_time(self, quiet=True, discard=0):
        return np.array([1.0])

    def get_chain(self, flat=False, discard=0):
        new = self._new

        class C:
            def __getitem__(s, key):
                return new

        return C()


def _install():
    m = types.ModuleType("minipcn")
    m.Sampler = CMiniPCN
    sys.modules["minipcn"] = m
    e = types.ModuleType("emcee")
    e.EnsembleSampler = CEmcee
    sys.modules["emcee"] = e
    o = types.ModuleType("orng")

    class ArrayRNG(CRng):
        def __init__(self, backend=None, **kw):
            w = World.current
            w.rng_constructed.append(self)
            super().__init__(w.model, "fresh", 1000 * len(w.rng_constructed))

    o.ArrayRNG = ArrayRNG
    sys.modules["orng"] = o


class _Tolerance:
    """beta_tolerance default as in the symbolic harness (1/4 unless the
    configuration says otherwise)."""

    def __init__(self, tol=0.25):
        self.tol = tol

    def __enter__(self):
        from aspire.samplers.smc.base import SMCSampler

        fn = SMCSampler.sample
        fn = getattr(fn, "__wrapped__", fn)
        self.fn = fn
        self.old = fn.__defaults__
        names = list(inspect.signature(fn).parameters)
        d = list(fn.__defaults__)
        d[names.index("beta_tolerance") - (len(names) - len(d))] = self.tol
        fn.__defaults__ = tuple(d)

    def __exit__(self, *a):
        self.fn.__defaults__ = self.old


# ---------------------------------------------------------------------------
# the float oracle


def precision_of(pop):
    """{field: dtype name} of a population object and the arrays it holds."""
    out = {"dtype": np.dtype(pop.dtype).name if getattr(pop, "dtype", None) is not None else None}
    for f in ("x", "log_likelihood", "log_prior", "log_q", "log_w", "weights"):
        a = getattr(pop, f, None)
        if a is not None:
            out[f] = np.asarray(a).dtype.name
    return out


def count_clause(w, bad, tag):
    allowed = [w.n_points]
    before = getattr(w, "points_asked_before", None)
    if before is not None:
        allowed.append(w.n_points + before)
    got = w.sampler.n_likelihood_evaluations
    if got not in allowed:
        extra = "" if before is None else f" (the interrupted run had been asked for {before}; neither reading gives {got})"
        bad.append(f"C17{tag}: n_likelihood_evaluations={got}, the likelihood was asked for {w.n_points} points{extra}")


def oracle_run(w, props, bad, tag=""):
    from scipy.special import logsumexp

    cfg = w.cfg
    smp = w.sampler
    hist = smp.history
    N = w.N
    sched = SCHEDULES[cfg["schedule"]]
    K = len(hist.beta)
    betas = [0.0] + [float(b) for b in hist.beta]
    info = {"betas": betas, "iterations": K}
    if w.error is not None:
        if "C06" in props:
            bad.append(f"C06{tag}: run did not finish: {w.error}")
        return info
    if "C06" in props:
        if not all(b2 > b1 for b1, b2 in zip(betas, betas[1:])) or not all(0 < b <= 1 for b in betas[1:]):
            bad.append(f"C06{tag}: ladder not strictly increasing in (0,1]: {betas}")
        cap = sched.get("max_n_steps")
        if not (betas[-1] == 1.0 or (cap is not None and K == cap)):
            bad.append(f"C06{tag}: final temperature {betas[-1]}")
        want_k = sched.get("n_steps") if cap is None else min(cap, sched.get("n_steps") or cap)
        if sched.get("n_steps") and K != want_k:
            bad.append(f"C06{tag}: fixed schedule of {sched['n_steps']} steps (cap {cap}) performed {K} iterations")
        if cap is not None and K > cap:
            bad.append(f"C06{tag}: step cap exceeded")
        if sched.get("min_step") and not all(b2 - b1 >= sched["min_step"] or b2 == 1.0 for b1, b2 in zip(betas, betas[1:])):
            bad.append(f"C06{tag}: minimum step not honoured: {betas}")
    pops = hist.sample_history
    if "C18" in props:
        for name in ("ess", "ess_target", "eff_target", "log_norm_ratio", "log_norm_ratio_var"):
            if len(getattr(hist, name)) != K:
                bad.append(f"C18{tag}: series {name} has {len(getattr(hist, name))} entries for {K} iterations")
        if len(hist.mcmc_acceptance) != len(w.kernel_inputs) + getattr(w, "kernel_offset", 0):
            bad.append(f"C18{tag}: mcmc_acceptance has {len(hist.mcmc_acceptance)} entries for {len(w.kernel_inputs) + getattr(w, 'kernel_offset', 0)} kernel calls")
        if len(pops) != K + 1:
            bad.append(f"C18{tag}: sample_history has {len(pops)} populations for {K} iterations")
    if len(pops) != K + 1:
        return info
    tol = 1e-8

    def close(a, b):
        a, b = float(a), float(b)
        return math.isfinite(a) and math.isfinite(b) and abs(a - b) <= tol * max(1.0, abs(a), abs(b))

    ratios, variances = [], []
    for t in range(K):
        x = np.asarray(pops[t].x, float)
        wv = w.model.L(x) + w.model.PI(x) - w.model.Q(x)
        lw = (betas[t + 1] - betas[t]) * wv
        ratio = float(logsumexp(lw) - math.log(len(lw)))
        u = np.exp(lw - lw.max())
        var = float(np.var(u) / (len(u) * np.mean(u) ** 2))
        ratios.append(ratio)
        variances.append(var)
        ess = float(np.exp(2 * logsumexp(lw) - logsumexp(2 * lw)))
        lw1 = (1.0 - betas[t]) * wv
        ess1 = float(np.exp(2 * logsumexp(lw1) - logsumexp(2 * lw1)))
        if "C08" in props:
            if not close(hist.log_norm_ratio[t], ratio):
                bad.append(f"C08{tag}: step {t} ratio {float(hist.log_norm_ratio[t])!r} recomputed {ratio!r}")
            if not close(hist.log_norm_ratio_var[t], var):
                bad.append(f"C08{tag}: step {t} variance {float(hist.log_norm_ratio_var[t])!r} recomputed {var!r}")
        if "C18" in props:
            if not close(hist.ess[t], ess):
                bad.append(f"C18{tag}: step {t} ess {float(hist.ess[t])!r} recomputed {ess!r}")
            if not close(hist.ess_target[t], ess1):
                bad.append(f"C18{tag}: step {t} ess_target {float(hist.ess_target[t])!r} recomputed {ess1!r}")
            if pops[t].beta != betas[t]:
                bad.append(f"C18{tag}: population {t} carries temperature {pops[t].beta} instead of {betas[t]}")
            if not close(hist.eff_target[t], smp.current_target_efficiency(betas[t + 1])):
                bad.append(f"C18{tag}: eff_target[{t}]")
    if "C18" in props and K >= 1 and pops[K].beta != betas[K]:
        bad.append(f"C18{tag}: last population carries temperature {pops[K].beta}")
    final = w.final
    if "C08" in props:
        if not close(final.log_evidence, sum(ratios)):
            bad.append(f"C08{tag}: log_evidence {float(final.log_evidence)!r} but the per-step ratios sum to {sum(ratios)!r}")
        if not close(final.log_evidence_error, math.sqrt(sum(variances))):
            bad.append(f"C08{tag}: log_evidence_error {float(final.log_evidence_error)!r} expected {math.sqrt(sum(variances))!r}")
    if "C09" in props:
        rng = w.rng
        n_res = K + (1 if cfg.get("n_final") else 0)
        if not (len(rng.p_seen) == n_res and len(w.kernel_inputs) == n_res):
            bad.append(f"C09{tag}: {len(rng.p_seen)} weighted draws and {len(w.kernel_inputs)} kernel calls for {n_res} resampling steps")
        else:
            for t in range(n_res):
                src = pops[min(t, K)]
                x = np.asarray(src.x, float)
                b0, b1 = betas[min(t, K)], (betas[t + 1] if t < K else 1.0)
                lw = (b1 - b0) * (w.model.L(x) + w.model.PI(x) - w.model.Q(x))
                want = np.exp(lw - logsumexp(lw))
                M = N if t < K else N + 1
                pv = rng.p_seen[t]
                if pv.shape != want.shape or not np.allclose(pv, want, rtol=1e-9, atol=1e-12):
                    bad.append(f"C09{tag}: resampling {t}: probability vector {pv.tolist()} expected {want.tolist()}")
                idx, z = rng.idx_seen[t], w.kernel_inputs[t]
                if len(idx) != M or len(z) != M:
                    bad.append(f"C09{tag}: resampling {t}: {len(idx)} particles drawn, {len(z)} moved, {M} requested")
                elif not np.array_equal(z, x[idx]):
                    bad.append(f"C09{tag}: resampling {t}: the moved population is not the drawn copies of the source rows")
    if "C10" in props:
        for t, p in enumerate(list(pops) + [final]):
            x = np.asarray(p.x, float)
            which = f"population {t}" if t < len(pops) else "final samples"
            if p.log_likelihood is None or p.log_prior is None:
                bad.append(f"C10{tag}: {which} lacks cached densities")
                continue
            if not np.allclose(np.asarray(p.log_likelihood, float), w.model.L(x), rtol=0, atol=1e-12) or not np.allclose(
                np.asarray(p.log_prior, float), w.model.PI(x), rtol=0, atol=1e-12
            ):
                bad.append(f"C10{tag}: {which}: cached likelihood/prior do not belong to the rows' coordinates")
            if t < len(pops) and (p.log_q is None or not np.allclose(np.asarray(p.log_q, float), w.model.Q(x), rtol=0, atol=1e-12)):
                bad.append(f"C10{tag}: {which}: cached proposal density does not belong to the rows' coordinates")
        want = N + 1 if cfg.get("n_final") else N
        if len(final.x) != want:
            bad.append(f"C10{tag}: {len(final.x)} final samples, {want} requested")
        if len(pops[0].x) != N:
            bad.append(f"C10{tag}: initial population has {len(pops[0].x)} particles")
    if "C15" in props:
        want = "float32" if cfg.get("dtype") in ("float32", "obj32") else "float64"
        for t, p in enumerate(list(pops) + [final]):
            which = f"population {t}" if t < len(pops) else "final samples"
            pr = precision_of(p)
            if any(v != want for v in pr.values()):
                bad.append(f"C15{tag}: {which} is not in the requested precision {want}: {pr}")
        for j, ck in enumerate(w.checkpoints):
            if any(v != want for v in ck["precision"].values()):
                bad.append(f"C15{tag}: checkpoint {j} holds a population that is not in the requested precision {want}: {ck['precision']}")
    if "C17" in props:
        count_clause(w, bad, tag)
    return info


def compare(ref, res, bad, tag):
    h1, h2 = ref.sampler.history, res.sampler.history
    if res.error is not None or res.final is None:
        bad.append(f"C11{tag}: resumed run did not finish: {res.error}")
        return
    b1, b2 = [float(b) for b in h1.beta], [float(b) for b in h2.beta]
    if b1 != b2:
        bad.append(f"C11{tag}: temperature ladder {b2} differs from the uninterrupted run's {b1}")
        return
    if len(h1.sample_history) != len(h2.sample_history):
        bad.append(f"C11{tag}: {len(h2.sample_history)} stored populations, the uninterrupted run has {len(h1.sample_history)}")
    for name in ("log_norm_ratio", "log_norm_ratio_var", "ess", "ess_target", "eff_target", "mcmc_acceptance"):
        a, b = [float(v) for v in getattr(h1, name)], [float(v) for v in getattr(h2, name)]
        if a != b:
            bad.append(f"C11{tag}: history series {name} differs: {b} vs {a}")
    if len(h1.sample_history) == len(h2.sample_history):
        for t, (p, q) in enumerate(zip(h1.sample_history, h2.sample_history)):
            for f in ("x", "log_likelihood", "log_prior", "log_q"):
                if not np.array_equal(np.asarray(getattr(p, f), float), np.asarray(getattr(q, f), float)):
                    bad.append(f"C11{tag}: population {t} field {f} differs")
    for f in ("x", "log_likelihood", "log_prior"):
        if not np.array_equal(np.asarray(getattr(ref.final, f), float), np.asarray(getattr(res.final, f), float)):
            bad.append(f"C11{tag}: final {f} differs")
    if float(ref.final.log_evidence) != float(res.final.log_evidence) or float(ref.final.log_evidence_error) != float(res.final.log_evidence_error):
        bad.append(f"C11{tag}: evidence differs: {float(res.final.log_evidence)!r} vs {float(ref.final.log_evidence)!r}")


# ---------------------------------------------------------------------------


def replay_loop(cex, props):
    _install()
    model = Model(cex)
    cfg = cex["cfg"]
    flow = cfg.get("flow", "plain")
    bad = []
    info = {}
    tmp = tempfile.mkdtemp(prefix="aspire-verif-replay-")
    try:
        with _Tolerance(cfg.get("tol", 0.25)):
            if flow == "plain":
                w = World(cex, model).build().run()
                bad += w.bad
                info = oracle_run(w, props, bad)
            elif flow == "twice":
                w = World(cex, model).build().run()
                bad += w.bad
                oracle_run(w, props, bad, tag="[first run]")
                w.kernel_inputs = []
                w.run()
                k_run = len(w.kernel_inputs) - (1 if cfg.get("n_final") else 0)
                if "C08" in props and len(w.sampler.history.log_norm_ratio) != k_run:
                    bad.append(f"C08[second run on the same sampler]: {len(w.sampler.history.log_norm_ratio)} per-step ratios are summed for a run of {k_run} iterations")
                info = oracle_run(w, props - {"C17"}, bad, tag="[second run on the same sampler]")
            elif flow == "resume":
                info = _replay_resume(cex, model, props, bad, tmp)
            elif flow == "cadence":
                info = _replay_cadence(cex, model, props, bad, tmp)
            elif flow == "rng":
                info = _replay_rng(cex, model, props, bad)
            elif flow == "resume_file":
                info = _replay_resume_file(cex, model, props, bad, tmp)
    finally:
        shutil.rmtree(tmp, ignore_errors=True)
    mine = [b for b in bad if any(b.startswith(p) for p in props)]
    return (len(mine) > 0, "; ".join(mine[:3]) if mine else "all clauses hold on this input", info)


def _replay_resume(cex, model, props, bad, tmp):
    cfg = cex["cfg"]
    ref = World(cex, model).build()
    ref.run(checkpoint_callback=ref.callback, checkpoint_every=1)
    bad += ref.bad
    info = oracle_run(ref, props, bad, tag="[ref]")
    info["resumed"] = []
    routes = cfg.get("routes", ["bytes", "live_dict"])
    for k, ck in enumerate(ref.checkpoints):
        for route in routes:
            src = ck["bytes"]
            if route in ("dict", "dict_twice"):
                src = pickle.loads(ck["bytes"])
            elif route == "live_dict":
                src = ck["live_state"]
            elif route == "file":
                continue
            res = World(cex, model, tag=f"r{k}", rng=CRng(model, "other", 77)).build()
            res.kernel_offset = ck["n_acc"]
            res.N_arg = res.N + int(cfg.get("resume_n_samples_delta", 0))
            res.points_asked_before = ck["n_ll_points"]
            res.run(resume_from=src, checkpoint_callback=res.callback, checkpoint_every=1)
            if route == "dict_twice":
                res = World(cex, model, tag=f"s{k}", rng=CRng(model, "other", 78)).build()
                res.kernel_offset = ck["n_acc"]
                res.points_asked_before = ck["n_ll_points"]
                res.run(resume_from=src, checkpoint_callback=res.callback, checkpoint_every=1)
            bad += res.bad
            tag = f"[resume@{k}/{route}]"
            if "C06" in props:
                if res.error is not None or res.final is None:
                    bad.append(f"C06{tag}: the resumed run did not finish: {res.error}")
                elif ck["n_acc"] + len(res.kernel_inputs) != len(ref.kernel_inputs):
                    bad.append(f"C06{tag}: the run resumed after {ck['n_acc']} kernel calls moved the population {len(res.kernel_inputs)} more times; the uninterrupted run needs {len(ref.kernel_inputs)}")
            if "C11" in props:
                compare(ref, res, bad, tag)
            r = oracle_run(res, props, bad, tag=tag)
            info["resumed"].append({"checkpoint": k, "iteration": ck["iteration"], "route": route, "betas": r.get("betas")})
    if "file" in routes:
        info["crash"] = _replay_crash(cex, model, props, bad, tmp, ref)
    if "live_after_fault" in routes:
        for c in range(1, ref.ll_calls + 1):
            w = World(cex, model).build()
            w.fail_at = c
            w.run(checkpoint_callback=w.callback, checkpoint_every=1)
            if w.error is None or not w.checkpoints:
                continue
            ck = w.checkpoints[-1]
            res = World(cex, model, tag=f"l{c}", rng=CRng(model, "other", 77)).build()
            res.kernel_offset = ck["n_acc"]
            res.run(resume_from=ck["live_state"], checkpoint_callback=res.callback, checkpoint_every=1)
            bad += res.bad
            tag = f"[fault at likelihood call {c}, resumed from the last in-memory checkpoint (iteration {ck['iteration']})]"
            if "C11" in props:
                compare(ref, res, bad, tag)
            oracle_run(res, props - {"C17"}, bad, tag=tag)
    return info


def _replay_crash(cex, model, props, bad, tmp, ref):
    out = []
    total_calls = ref.ll_calls
    for c in range(1, total_calls + 1):
        path = os.path.join(tmp, f"crash{c}.h5")
        w = World(cex, model).build()
        w.fail_at = c
        w.run(checkpoint_every=1, checkpoint_file_path=path)
        if w.error is None:
            continue
        last = w.sampler.last_checkpoint_bytes
        exists = os.path.exists(path)
        if last is None:
            if exists and "C12" in props:
                import h5py

                with h5py.File(path, "r") as f:
                    if "checkpoint" in f:
                        bad.append(f"C12[crash@{c}]: file holds a checkpoint although none was produced")
            continue
        if "C12" in props:
            if not exists:
                bad.append(f"C12[crash@{c}]: no checkpoint file after {len(w.sampler.history.beta)} iterations")
                continue
            import h5py

            with h5py.File(path, "r") as f:
                blob = f["checkpoint"]["state"][...].tobytes()
            if blob != last:
                bad.append(f"C12[crash@{c}]: file payload ({len(blob)} bytes) is not the most recent checkpoint ({len(last)} bytes)")
                continue
        if ("C11" in props or "C17" in props) and exists:
            res = World(cex, model, tag=f"c{c}", rng=CRng(model, "other", 77)).build()
            res.kernel_offset = len(pickle.loads(last)["history"].mcmc_acceptance)
            res.run(resume_from=path)
            if "C11" in props:
                compare(ref, res, bad, f"[crash@{c}/file]")
            if "C17" in props and res.error is None and res.final is not None:
                res.points_asked_before = w.n_points
                count_clause(res, bad, f"[resumed after a fault at likelihood call {c}]")
        out.append(c)
    return out


_FLOWS = {}


def _aspire_world(cex, model, path, fail_at=None, resume=False):
    """Concrete counterpart of LoopCheck._aspire_run: the real Aspire route."""
    import aspire.aspire as A
    from aspire.aspire import Aspire

    w = World(cex, model)
    w.fail_at = fail_at
    inner = w.flow()

    class PFlow:
        xp = np

        def log_prob(self, x):
            return inner.log_prob(x)

        def sample_and_log_prob(self, n):
            return inner.sample_and_log_prob(n)

        def save(self, h5_file, path="flow"):
            g = h5_file.create_group(path)
            g.attrs["stub"] = "concrete"

        @classmethod
        def load(cls, h5_file, path="flow"):
            return _FLOWS["current"]

    old = A.get_flow_wrapper
    A.get_flow_wrapper = lambda backend="zuko", flow_matching=False: (PFlow, np)
    World.current = w
    cfg = cex["cfg"]
    from harness.smc_loop import schedule_kwargs

    kw = schedule_kwargs(cfg["schedule"], w.N)
    kw["sampler_kwargs"] = {"n_steps": 1}
    if cfg.get("n_final"):
        kw["n_final_samples"] = w.N + 1
    w.final, w.error, a = None, None, None
    try:
        with np.errstate(all="ignore"):
            if resume:
                _FLOWS["current"] = PFlow()
                a = Aspire.resume_from_file(path, log_likelihood=w.log_likelihood, log_prior=w.log_prior)
                w.final = a.sample_posterior(preconditioning="none", **kw)
            else:
                extra = {"dtype": (np.float32 if cfg["dtype"] == "obj32" else cfg["dtype"])} if cfg.get("dtype") else {}
                a = Aspire(log_likelihood=w.log_likelihood, log_prior=w.log_prior, dims=w.d, parameters=[f"p{k}" for k in range(w.d)], flow=PFlow(), xp=np, **extra)
                w.final = a.sample_posterior(n_samples=w.N, sampler="smc", checkpoint_path=path, preconditioning="none", **kw)
    except RuntimeError as e:
        w.error = e
    finally:
        A.get_flow_wrapper = old
    w.sampler = a.sampler if a is not None else None
    return w


def _replay_resume_file(cex, model, props, bad, tmp):
    cfg = cex["cfg"]
    ref = _aspire_world(cex, model, os.path.join(tmp, "ref.h5"))
    if ref.error is not None or ref.final is None:
        bad.append(f"{'C11' if 'C11' in props else 'C12'}[resume_constructor]: the reference run failed: {ref.error}")
        return {}
    total = ref.ll_calls
    if "C15" in props:
        oracle_run(ref, {"C15"}, bad, tag="[Aspire route]")
    points = range(1, total + 1) if cfg.get("all_crash_points") else [total]
    out = []
    for c in points:
        path = os.path.join(tmp, f"crash{c}.h5")
        w = _aspire_world(cex, model, path, fail_at=c)
        if w.error is None:
            continue
        last = w.sampler.last_checkpoint_bytes if w.sampler is not None else None
        if "C12" in props:
            import h5py

            if not os.path.exists(path):
                bad.append(f"C12[crash@{c}]: no checkpoint file")
            else:
                with h5py.File(path, "r") as f:
                    keys = sorted(f.keys())
                    blob = f["checkpoint"]["state"][...].tobytes() if "checkpoint" in f and "state" in f["checkpoint"] else None
                if "aspire_config" not in keys:
                    bad.append(f"C12[crash@{c}]: the interrupted run's file holds no configuration (groups: {keys})")
                if "flow" not in keys:
                    bad.append(f"C12[crash@{c}]: the interrupted run's file holds no proposal (groups: {keys})")
                if blob != last:
                    bad.append(f"C12[crash@{c}]: the file's checkpoint is not the most recent payload")
        if last is None:
            continue
        try:
            res = _aspire_world(cex, model, path, resume=True)
        except (KeyError, ValueError, OSError, AttributeError, TypeError) as e:
            if "C12" in props:
                bad.append(f"C12[crash@{c}]: the file is not loadable by Aspire.resume_from_file: {e!r}")
            if "C11" in props:
                bad.append(f"C11[resume_constructor crash@{c}]: resume failed: {e!r}")
            continue
        if "C11" in props:
            compare(ref, res, bad, f"[resume_constructor crash@{c}]")
        if "C15" in props and res.error is None and res.final is not None:
            oracle_run(res, {"C15"}, bad, tag=f"[instance rebuilt by resume_from_file, crash@{c}]")
        out.append(c)
    return {"betas": [float(b) for b in ref.sampler.history.beta], "crash_points": out}


def _replay_cadence(cex, model, props, bad, tmp):
    cfg = cex["cfg"]
    info = {}
    for every in cfg.get("every_values", [1, 2, 3]):
        w = World(cex, model).build()
        if cfg.get("cadence_via") == "file":
            orig = w.sampler.default_file_checkpoint_callback

            def factory(path, *a, _orig=orig, _w=w, **k):
                cb = _orig(path, *a, **k)

                def both(state):
                    _w.callback(state)
                    return cb(state)

                return both

            w.sampler.default_file_checkpoint_callback = factory
            w.run(checkpoint_every=every, checkpoint_file_path=os.path.join(tmp, f"cadence{every}.h5"))
        else:
            w.run(checkpoint_callback=w.callback, checkpoint_every=every)
        K = len(w.sampler.history.beta)
        its = [c["iteration"] for c in w.checkpoints]
        want = [t for t in range(1, K + 1) if every > 0 and t % every == 0] + [K]
        if its != want and "C12" in props:
            bad.append(f"C12[every={every}]: checkpoints written at iterations {its}, expected {want}")
        if "C12" in props and w.checkpoints and w.final is not None:
            last = w.checkpoints[-1]
            if last["x"].shape != np.asarray(w.final.x).shape or not np.array_equal(last["x"], np.asarray(w.final.x, float)):
                bad.append(f"C12[every={every}]: the end-of-run checkpoint holds a population of {len(last['x'])} particles that is not the returned one ({len(w.final.x)})")
        info[f"every{every}"] = its
    return info


def _replay_rng(cex, model, props, bad):
    cfg = cex["cfg"]
    g = CRng(model, "user", 0)
    import numpy.random as npr

    real_default_rng = npr.default_rng
    constructed = []

    def counting_default_rng(*a, **k):
        r = CRng(model, "fresh", 1000 * (len(constructed) + 1))
        constructed.append(r)
        return r

    npr.default_rng = counting_default_rng
    try:
        return _replay_rng_inner(cex, model, props, bad, cfg, g, constructed)
    finally:
        npr.default_rng = real_default_rng


def _replay_rng_inner(cex, model, props, bad, cfg, g, constructed):
    if cfg.get("rng_via") == "aspire":
        from aspire.aspire import Aspire

        w = World(cex, model, rng=g)
        a = Aspire(
            log_likelihood=w.log_likelihood,
            log_prior=w.log_prior,
            dims=w.d,
            parameters=[f"p{k}" for k in range(w.d)],
            flow=w.flow(),
            xp=np,
        )
        World.current = w
        from harness.smc_loop import schedule_kwargs

        kw = schedule_kwargs(cfg["schedule"], w.N)
        kw["sampler_kwargs"] = {"n_steps": 1}
        from harness.loop_base import record_sampler_arguments

        received = record_sampler_arguments(a)
        with np.errstate(all="ignore"):
            a.sample_posterior(n_samples=w.N, sampler="smc", rng=g, preconditioning="none", **kw)
        got = [r for r in received if r.get("rng") is not None]
        if "C20" in props and not (len(got) >= 1 and all(r["rng"] is g for r in got)):
            bad.append("C20: the generator that reached the sampler is not the user's object (a copy or nothing was handed on): the user's generator is left untouched")
    else:
        w = World(cex, model, rng=g).build().run()
    drawn = [r for r in list(w.rng_constructed) + list(constructed) if r.used > 0]
    if drawn and "C20" in props:
        bad.append("C20: random draws were served by a generator the library constructed itself although the user supplied one")
    if g.used == 0 and "C20" in props:
        bad.append("C20: the user-supplied generator was never used")
    return {"user_draws": g.used, "fresh": len(drawn)}
