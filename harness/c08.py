"""C08 -- SMC evidence is the accumulated product of incremental ratios
(loop harness, DESIGN 6/C08), plus a function-level FP-sort harness for the
per-step ratio on populations that contain zero-weight (log-likelihood -inf)
particles, which the real sort cannot represent."""

import math

import numpy as np

from harness.common import core, main, sx, z3
from harness.loop_base import LoopCheck


class C08(LoopCheck):
    pid = "C08"
    props = {"C08"}
    flows = ("plain", "resume", "twice")
    thorough_schedules = ["fixed1", "fixed2", "fixed4", "adaptive_half"]
    adaptive_N3 = ("adaptive_half",)
    required_labels = ["c08/step_ratio", "c08/step_variance", "c08/evidence_is_sum", "c08/error_is_root_sum_var", "c08/fp_ratio_mean_over_all"]

    def configs(self, tier):
        out = []
        for c in super().configs(tier):
            if c["flow"] == "resume":
                # "sums every step exactly once" also for a run resumed from a
                # checkpoint (bytes, and the live dictionary kept in memory)
                if c["n_final"] or c["schedule"] not in ("fixed2", "adaptive_half") or (tier == "quick" and c["schedule"] != "fixed2"):
                    continue
                c["routes"] = ["bytes", "live_dict", "live_after_fault"]
                c["resume_n_samples_delta"] = 1
            if c["flow"] == "twice" and (c["n_final"] or c["schedule"] not in ("fixed2",)):
                continue
            out.append(c)
        for n in ([2] if tier == "quick" else [2, 3]):
            out.append({"name": f"fp-ratio-N{n}", "kind": "fp_ratio", "flow": "fp_ratio", "N": n, "timeout_ms": 120000})
        return out

    def ctx_for(self, cfg, seed):
        if cfg.get("kind") == "fp_ratio":
            return sx.Ctx(self.pid, seed=seed, timeout_ms=cfg.get("timeout_ms", 120000), sort="F", fp_bits=64)
        return super().ctx_for(cfg, seed)

    def harness(self, cfg):
        if cfg.get("kind") == "fp_ratio":
            return self.h_fp_ratio(cfg)
        return super().harness(cfg)

    def h_fp_ratio(self, cfg):
        from aspire.samples import SMCSamples

        N = cfg["N"]

        def h(ctx):
            S = sx.OPS.sort
            ctx.notes["fp_exact_timeout_ms"] = 30000
            ll = sx.sym("ll", N)
            t = sx.terms(ll)
            minf = z3.fpMinusInfinity(S)
            bound = z3.FPVal(1e4, S)
            fin = lambda v: z3.And(z3.fpLEQ(v, bound), z3.fpGEQ(v, z3.fpNeg(bound)))  # noqa: E731
            # particle 0 has positive weight; any other may have zero weight
            ctx.add_assume(fin(t[0]))
            for v in t[1:]:
                ctx.add_assume(z3.Or(v == minf, fin(v)))
            zero = sx.zeros(N)
            s = SMCSamples(x=sx.zeros((N, 1)), log_likelihood=ll, log_prior=zero, log_q=zero, beta=0.0, xp=sx)
            r = sx.term(s.log_evidence_ratio(1.0))
            # which particles carry weight is decided per path
            finite = [ctx.branch(z3.Not(v == minf)) for v in t]
            n_fin = sum(1 for f in finite if f)
            ctx.prove(z3.Not(z3.fpIsNaN(r)), "c08/fp_ratio_not_nan")
            # The ratio is the log of the MEAN over all N particles: it must be
            # the (separately verified, C02) logsumexp of the incremental
            # log-weights of ALL particles minus log N -- in particular the
            # zero-weight particles count in the denominator.  Compared as FP
            # terms: identical on the current code; a different normaliser or a
            # sum over a subset gives a different term, refuted by a witness.
            from aspire.utils import logsumexp

            spec = sx.term(logsumexp(s.unnormalized_log_weights(1.0)) - math.log(N))
            ctx.prove(z3.Or(r == spec, z3.And(z3.fpIsNaN(r), z3.fpIsNaN(spec))), "c08/fp_ratio_mean_over_all", detail={"n_finite": n_fin, "N": N})

        return h

    def to_cex(self, fl):
        if fl["cfg"].get("kind") == "fp_ratio":
            return {"cfg": fl["cfg"], "label": fl["label"], "detail": fl.get("detail"), "ll": [fl["env"].get(f"ll_{i}") for i in range(fl["cfg"]["N"])]}
        return super().to_cex(fl)

    def replay(self, cex):
        if cex["cfg"].get("kind") == "fp_ratio":
            return replay_fp_ratio(cex)
        return super().replay(cex)


def replay_fp_ratio(cex):
    from scipy.special import logsumexp

    from aspire.samples import SMCSamples

    N = cex["cfg"]["N"]
    cands = []
    ll = [(-math.inf if v is None else float(v)) for v in cex["ll"]]
    cands.append(ll)
    # the same pattern of zero-weight particles with equal finite weights
    pat = [math.isfinite(v) for v in ll]
    cands.append([1.5 if p else -math.inf for p in pat])
    bad = []
    for c in cands:
        w = np.asarray(c, float)
        if not np.isfinite(w[0]) or np.isnan(w).any():
            continue
        s = SMCSamples(x=np.zeros((N, 1)), log_likelihood=w, log_prior=np.zeros(N), log_q=np.zeros(N), beta=0.0)
        with np.errstate(all="ignore"):
            got = float(s.log_evidence_ratio(1.0))
        want = float(logsumexp(w) - math.log(N))
        if not (abs(got - want) <= 1e-9 * max(1.0, abs(want))):
            bad.append(f"log-weights {c}: ratio {got!r}, log of the mean over all {N} particles {want!r}")
    return (len(bad) > 0, "; ".join(bad[:2]) if bad else "ratio is the log mean weight over all particles")


if __name__ == "__main__":
    raise SystemExit(main(C08()))
