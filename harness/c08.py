"""C08 -- SMC evidence is the accumulated product of incremental ratios
(loop harness, DESIGN 6/C08)."""

from harness.common import main
from harness.loop_base import LoopCheck


class C08(LoopCheck):
    pid = "C08"
    props = {"C08"}
    flows = ("plain",)
    required_labels = ["c08/step_ratio", "c08/step_variance", "c08/evidence_is_sum", "c08/error_is_root_sum_var"]


if __name__ == "__main__":
    raise SystemExit(main(C08()))
