"""Base class of the checks that share the SMC loop harness."""

from __future__ import annotations

import os
import pickle
import shutil
import tempfile

from harness import loop_checks, smc_loop
from harness.common import Check, core, sx, z3
from harness.stubs import SymRng, UserFns


def record_sampler_arguments(a):
    """Wrap the sampler class an Aspire instance builds so that the keyword arguments
    its constructor and its sample() receive are recorded (same signatures, so the
    real keyword routing of Aspire.sample_posterior is unchanged)."""
    import functools
    import inspect

    received = []
    real_get = a.get_sampler_class

    def get(sampler_type):
        base = real_get(sampler_type)

        class Recording(base):
            @functools.wraps(base.__init__)
            def __init__(self, *args, **kw):
                received.append({"where": "constructor", "rng": kw.get("rng")})
                super(Recording, self).__init__(*args, **kw)

            @functools.wraps(base.sample)
            def sample(self, *args, **kw):
                if "rng" in kw:
                    received.append({"where": "sample", "rng": kw.get("rng")})
                return super(Recording, self).sample(*args, **kw)

        Recording.__init__.__signature__ = inspect.signature(base.__init__)
        Recording.sample.__signature__ = inspect.signature(base.sample)
        Recording.__name__ = base.__name__
        Recording.__qualname__ = base.__qualname__
        return Recording

    a.get_sampler_class = get
    return received


class LoopCheck(Check):
    props: set = set()
    flows = ("plain",)
    stubs = [
        "user log_likelihood / log_prior -> uninterpreted functions L, PI of the coordinates; the likelihood callable also poses the C17 obligations and counts points",
        "prior_flow -> stub: sample_and_log_prob(n) returns fresh symbolic coordinates and Q(x); log_prob(x) = Q(x) (uninterpreted)",
        "numpy.random.Generator / orng.ArrayRNG -> counter-indexed symbolic stream (choice -> symbolic indices in [0,N)); bit_generator.state is (stream, counter); the k-th generator the library constructs within one run always starts in the same state",
        "minipcn / emcee (absent here) -> fake modules: the kernel calls the target it was given on its start positions, consumes the generator it was given and returns fresh symbolic positions keyed by the generator state",
        "SMCSampler.sample -> logging-stripped copy compiled from the current source; its beta_tolerance default is 1/4 in this harness so that every probe temperature is a dyadic rational",
        "preconditioning: the real IdentityTransform; C10 also runs the real logit CompositeTransform (symbolic bounds) -- for EmceeSMC NumpySMCSampler's re-instantiation of that transform on numpy is replaced by the same transform on the symbolic namespace",
    ]
    outside = [
        "the inside of minipcn / emcee / blackjax; BlackJAX's mutate (jax vmap/scan) is not executed",
        "bisection tolerances finer than 1/4 inside whole runs",
        "N, T beyond the bounds; log output",
    ]
    bounds = {
        "quick": {"N": 2, "d": 1, "T": 2, "schedules": ["fixed1", "fixed2", "adaptive_half"]},
        "thorough": {"N": [2, 3], "d": [1, 2], "T": 3, "schedules": list(smc_loop.SCHEDULES)},
    }

    # schedules of the thorough tier; adaptive schedules with N = 3 are expensive
    # (hundreds of bisection paths per iteration), so each property lists the
    # ones its clauses need
    thorough_schedules = ["fixed1", "fixed2", "fixed4", "adaptive_half"]
    adaptive_N3 = ("adaptive_half",)

    def schedules(self, tier):
        return ["fixed1", "fixed2", "adaptive_half"] if tier == "quick" else list(self.thorough_schedules)

    def configs(self, tier):
        out = []
        for flow in self.flows:
            for sched in self.schedules(tier):
                for n_final in (False, True):
                    if tier == "quick" and n_final and sched != "fixed2":
                        continue
                    samplers = ["MiniPCNSMC"] if tier == "quick" else ["MiniPCNSMC", "EmceeSMC"]
                    for s in samplers:
                        if s == "EmceeSMC" and (sched.startswith("adaptive") or "max_n_steps" in smc_loop.SCHEDULES[sched] or "min_step" in smc_loop.SCHEDULES[sched]):
                            continue  # EmceeSMC.sample does not expose min_step / max_n_steps
                        c = {
                            "name": f"{flow}-{s}-{sched}-{'nf' if n_final else 'std'}",
                            "flow": flow,
                            "schedule": sched,
                            "n_final": n_final,
                            "sampler": s,
                            "N": 3 if (sched in self.adaptive_N3 and tier != "quick") else 2,
                            "d": 1,
                            "T": 4 if sched.startswith("fixed4") else (2 if (tier == "quick" or sched == "adaptive_free") else 3),
                            "D": 4,
                            "timeout_ms": 120000,
                            "split_depth": 8 if sched.startswith("adaptive") else 2,
                        }
                        out.append(c)
        return out

    def ctx_for(self, cfg, seed):
        return sx.Ctx(self.pid, D=cfg.get("D", 4), seed=seed, timeout_ms=cfg.get("timeout_ms", 120000))

    # ------------------------------------------------------------------
    def harness(self, cfg):
        smc_loop.install_fake_kernels()
        flow = cfg["flow"]

        def h(ctx):
            removed = smc_loop.patch_sample_loop()
            fn = smc_loop._patched["fn"]
            old_defaults = fn.__defaults__
            # beta_tolerance is the last default of SMCSampler.sample
            import inspect

            names = list(inspect.signature(fn).parameters)
            defaults = list(fn.__defaults__)
            n_without = len(names) - len(defaults)
            if "beta_tolerance" not in names:
                raise core.HarnessError("missing SMCSampler.sample(beta_tolerance=...)")
            defaults[names.index("beta_tolerance") - n_without] = cfg.get("tol", 0.25)
            fn.__defaults__ = tuple(defaults)
            tmp = None
            try:
                fns = UserFns(cfg.get("d", 1))
                ctx.notes["fns_obj"] = fns
                tmp = tempfile.mkdtemp(prefix="aspire-verif-")
                getattr(self, "flow_" + flow)(ctx, cfg, fns, tmp)
            finally:
                fn.__defaults__ = old_defaults
                smc_loop.unpatch_sample_loop()
                if tmp:
                    shutil.rmtree(tmp, ignore_errors=True)

        return h

    # -- flows -------------------------------------------------------------
    def new_env(self, ctx, cfg, fns, tag="ref", rng=None, rng_via="sample"):
        env = smc_loop.RunEnv(ctx, cfg, fns, tag=tag, rng=rng, props=self.props)
        env.build(cfg["sampler"], rng_via=rng_via)
        return env

    def flow_plain(self, ctx, cfg, fns, tmp):
        env = self.new_env(ctx, cfg, fns)
        env.run()
        if env.stopped and cfg["schedule"] not in loop_checks.TERMINATING:
            raise core.PathCut()
        loop_checks.check_run(ctx, env, self.props)
        self.validate_against_numpy(ctx, cfg, env)
        return env

    def validate_against_numpy(self, ctx, cfg, env, stream="g"):
        """Translator validation for a whole run: a model of the path condition
        is turned into concrete coordinates / kernel outputs / index draws and a
        value table for L, PI, Q; the real sampler is run on NumPy over the
        concrete fake kernels, and its temperatures, per-step ratios and
        evidence are compared with the symbolic outputs evaluated under the
        model."""
        if ctx.frontier_depth is not None or env.final is None:
            return
        from harness import loop_replay as LR

        hist = env.sampler.history
        outs = [sx.term(t) if isinstance(t, sx.Array) else core.rv(float(t)) for t in hist.log_norm_ratio]
        outs.append(sx.term(env.final.log_evidence) if isinstance(env.final.log_evidence, sx.Array) else core.rv(float(env.final.log_evidence)))
        w = ctx.witness(extra_terms=outs)
        if w is None:
            raise core.HarnessError("vacuous path in the loop harness")
        import math

        pur = dict(w.get("__purified__", {}))
        # real point of the log-space problem: user-function values follow their
        # exp companions (value := D ln E), as for plain variables
        for atom, e in ctx.exp_atoms.values():
            ev = w.get(e.decl().name())
            if core.is_uf_app(atom) and ev is not None and ev > 0:
                pur[str(atom)] = ctx.D * math.log(ev)
        w = {k: v for k, v in w.items() if not k.startswith("E!")}
        w["__purified__"] = pur
        cex = {"cfg": dict(cfg, flow="plain"), "env": {k: v for k, v in w.items() if k != "__purified__"}, "purified": pur}
        model = LR.Model(cex)
        fns = {"L": lambda *a: float(model.L([list(a)])[0]), "PI": lambda *a: float(model.PI([list(a)])[0]), "Q": lambda *a: float(model.Q([list(a)])[0])}
        # the model must be a real point (exp companions consistent with the
        # user-function values): evaluate the path condition with the true exp
        try:
            for f in ctx.constraints():
                if core.numeval(f, w, fns, ctx.D, ctx.exp_names, approx=True) is not True:
                    return
        except (core.HarnessError, OverflowError, ValueError, ZeroDivisionError):
            return
        LR._install()
        try:
            with LR._Tolerance(cfg.get("tol", 0.25)):
                world = LR.World(cex, model, rng=LR.CRng(model, stream, 0)).build().run()
        finally:
            from harness import smc_loop

            smc_loop.install_fake_kernels()
        if world.error is not None or world.final is None:
            raise core.HarnessError(f"translator validation: the concrete run failed: {world.error}")
        h2 = world.sampler.history
        if [float(b) for b in h2.beta] != [float(b) for b in hist.beta]:
            raise core.HarnessError(f"translator validation: temperatures differ: NumPy {list(h2.beta)} vs symbolic path {list(hist.beta)}")
        conc = [float(v) for v in h2.log_norm_ratio] + [float(world.final.log_evidence)]
        for k, (t, c) in enumerate(zip(outs, conc)):
            g = core.numeval(t, w, fns, ctx.D, ctx.exp_names)
            if abs(g - c) > 1e-6 * max(1.0, abs(g), abs(c)):
                raise core.HarnessError(f"translator validation failed for output {k}: symbolic {g!r} vs NumPy {c!r}")
        ctx.stats.validated += 1

    # -- two fresh runs on ONE sampler object (state left over from the first) ----
    def flow_twice(self, ctx, cfg, fns, tmp):
        env = self.new_env(ctx, cfg, fns)
        env.run()
        if env.stopped:
            raise core.PathCut()
        loop_checks.check_run(ctx, env, self.props)
        first_kernel_calls = len(env.kernel_inputs)
        # second, fresh run on the same object: new draws (the flow stub numbers
        # its draws), same generator object continuing its stream
        env.kernel_inputs = []
        env.max_iter = env.max_iter  # per-run bound
        env.target.n_points_before = env.target.n_points
        n0 = env.sampler.n_likelihood_evaluations
        env.run()
        if env.stopped:
            raise core.PathCut()
        # the second run's evidence sums the steps of THIS run only
        k_run = len(env.kernel_inputs) - (1 if cfg.get("n_final") else 0)
        hist = env.sampler.history
        if "C08" in self.props:
            ctx.prove(len(hist.log_norm_ratio) == k_run and len(hist.log_norm_ratio_var) == k_run, "c08/steps_of_this_run_only", detail={"recorded": len(hist.log_norm_ratio), "iterations_of_this_run": k_run})
        loop_checks.check_run(ctx, env, self.props - {"C17"}, label_suffix="@second_run")
        if "C17" in self.props:
            ctx.prove(env.sampler.n_likelihood_evaluations == env.target.n_points, "c17/count@second_run")

    # -- resume (C11; the per-run clauses again on every resumed run) ----------
    def flow_resume(self, ctx, cfg, fns, tmp):
        P = self.props
        ref = self.new_env(ctx, cfg, fns)
        ref.run(checkpoint="callback", checkpoint_every=1)
        if ref.stopped:
            if cfg["schedule"] not in loop_checks.TERMINATING:
                raise core.PathCut()
            loop_checks.check_run(ctx, ref, P)
            return
        loop_checks.check_run(ctx, ref, P - {"C11"})
        self.validate_against_numpy(ctx, cfg, ref)
        ctx.prove(len(ref.checkpoints) >= 1, "c11/has_checkpoints")
        routes = cfg.get("routes", ["bytes", "live_dict"])
        for k, ck in enumerate(ref.checkpoints):
            for route in routes:
                if route == "file":
                    continue
                if route == "bytes":
                    src = ck["bytes"]
                elif route == "dict_twice":
                    src = pickle.loads(ck["bytes"])
                elif route == "live_dict":
                    # the very dictionary the callback was handed, as a user who
                    # keeps checkpoints in memory would hold it -- after the run
                    # has moved on
                    src = ck["live_state"]
                else:
                    src = pickle.loads(ck["bytes"])
                res = self.new_env(ctx, cfg, fns, tag=f"r{k}", rng=SymRng(ctx, "other", 77))
                res.kernel_offset = ck["n_acc"]
                # the n_samples argument is required by the signature but must be
                # irrelevant on resume (the checkpointed population is used)
                res.N_arg = res.N + int(cfg.get("resume_n_samples_delta", 0))
                # had the reference run been interrupted right after this checkpoint, its
                # likelihood would have been asked for this many points
                res.points_asked_before = ck["n_ll_points"]
                res.run(resume_from=src, checkpoint="callback", checkpoint_every=1)
                if route == "dict_twice":
                    # the same dictionary once more (a second interruption): resuming
                    # must not have consumed or altered it
                    res = self.new_env(ctx, cfg, fns, tag=f"s{k}", rng=SymRng(ctx, "other", 78))
                    res.kernel_offset = ck["n_acc"]
                    res.points_asked_before = ck["n_ll_points"]
                    res.run(resume_from=src, checkpoint="callback", checkpoint_every=1)
                d = {"checkpoint": k, "iteration": ck["iteration"], "route": route}
                if "C11" in P:
                    loop_checks.compare_runs(ctx, ref, res, "c11/resume", detail=d)
                if "C06" in P:
                    # the interrupted and the resumed part together perform the iterations of
                    # one run: the resumed run ends at temperature one having moved the
                    # population exactly as often as was still outstanding
                    done = ck["n_acc"]
                    total = len(ref.kernel_inputs)
                    ctx.prove(
                        (not res.stopped) and res.final is not None and done + len(res.kernel_inputs) == total,
                        "c06/resumed_completes_the_run",
                        detail={**d, "kernel_calls_before_checkpoint": done, "kernel_calls_after_resume": len(res.kernel_inputs), "kernel_calls_of_uninterrupted_run": total},
                    )
                loop_checks.check_run(ctx, res, P - {"C11"}, label_suffix="@resumed")
        if "file" in routes:
            self._crash_points(ctx, cfg, fns, tmp, ref)
        if "live_after_fault" in routes:
            self._crash_points_live(ctx, cfg, fns, ref)

    def _crash_points_live(self, ctx, cfg, fns, ref):
        """A user who keeps the checkpoint dictionaries in memory: the run goes on after
        the last one, fails at some later likelihood call (every one is tried), and is
        resumed in a fresh sampler from that last dictionary -- which must still describe
        the moment it was handed over, whatever the failed run did afterwards."""
        P = self.props
        total = len(ref.target.ll_calls)
        for c in range(1, total + 1):
            w = self.new_env(ctx, cfg, fns)
            w.target.fail_at = c
            w.target.check_c17 = False
            w.run(checkpoint="callback", checkpoint_every=1)
            if w.exception is None or not w.checkpoints:
                continue
            ck = w.checkpoints[-1]
            d = {"fault_at_likelihood_call": c, "checkpoint_iteration": ck["iteration"], "route": "live_after_fault"}
            ctx.reach("resume/live_after_fault")
            res = self.new_env(ctx, cfg, fns, tag=f"l{c}", rng=SymRng(ctx, "other", 77))
            res.kernel_offset = ck["n_acc"]
            res.points_asked_before = w.target.n_points
            res.run(resume_from=ck["live_state"], checkpoint="callback", checkpoint_every=1)
            if "C11" in P:
                loop_checks.compare_runs(ctx, ref, res, "c11/resume_live_after_fault", detail=d)
            loop_checks.check_run(ctx, res, P - {"C11", "C17"}, label_suffix="@resumed_live_after_fault")

    def _crash_points(self, ctx, cfg, fns, tmp, ref):
        """Fault injected at every likelihood call of a run that checkpoints to
        a real HDF5 file; the file is then inspected (C12) and resumed from (C11)."""
        P = self.props
        total = len(ref.target.ll_calls)
        for c in range(1, total + 1):
            path = os.path.join(tmp, f"crash{c}.h5")
            w = self.new_env(ctx, cfg, fns)
            w.target.fail_at = c
            w.target.check_c17 = False
            w.run(checkpoint_every=1, checkpoint_file=path)
            if w.exception is None:
                continue
            last = w.sampler.last_checkpoint_bytes
            d = {"crash_at_likelihood_call": c}
            if last is None:
                continue
            ctx.reach("c12/file_after_fault")
            if "C12" in P:
                ok = os.path.exists(path)
                ctx.prove(ok, "c12/file_exists", detail=d)
                if ok:
                    import h5py

                    with h5py.File(path, "r") as f:
                        blob = f["checkpoint"]["state"][...].tobytes()
                    ctx.prove(blob == last, "c12/file_is_latest_payload", detail={"file_bytes": len(blob), "latest_bytes": len(last), **d})
            if ("C11" in P or "C17" in P) and os.path.exists(path):
                res = self.new_env(ctx, cfg, fns, tag=f"c{c}", rng=SymRng(ctx, "other", 77))
                res.kernel_offset = len(pickle.loads(last)["history"].mcmc_acceptance)
                res.run(resume_from=path)
                if "C11" in P:
                    loop_checks.compare_runs(ctx, ref, res, "c11/resume_file", detail=d)
                if "C17" in P and not res.stopped and res.final is not None:
                    # the interrupted run went on evaluating after its last checkpoint
                    res.points_asked_before = w.target.n_points
                    loop_checks.check_count(ctx, res, "c17/count@resumed_after_fault", detail=d)

    # -- the resume-from-file constructor (C11) ------------------------------------
    def flow_resume_file(self, ctx, cfg, fns, tmp):
        """Reference run and interrupted runs through the REAL
        Aspire.sample_posterior (config, flow and checkpoints written to a real
        HDF5 file), then Aspire.resume_from_file + sample_posterior."""
        import aspire.aspire as A

        old_wrapper = A.get_flow_wrapper
        from harness.stubs import FlowStub

        A.get_flow_wrapper = lambda backend="zuko", flow_matching=False: (FlowStub, sx)
        try:
            ref = self._aspire_run(ctx, cfg, fns, os.path.join(tmp, "ref.h5"))
            if ref.stopped or ref.final is None:
                raise core.PathCut()
            if "C15" in self.props:
                loop_checks.check_run(ctx, ref, {"C15"}, label_suffix="@aspire")
            total = len(ref.target.ll_calls)
            points = range(1, total + 1) if cfg.get("all_crash_points") else [total]
            for c in points:
                path = os.path.join(tmp, f"crash{c}.h5")
                w = self._aspire_run(ctx, cfg, fns, path, fail_at=c)
                if w.exception is None:
                    continue
                d = {"crash_at_likelihood_call": c}
                last = w.sampler.last_checkpoint_bytes if w.sampler is not None else None
                if "C12" in self.props:
                    # what the interrupted Aspire run left on disk
                    import h5py

                    ctx.reach("c12/aspire_file_after_fault")
                    if ctx.prove(os.path.exists(path), "c12/aspire_file_exists", detail=d):
                        with h5py.File(path, "r") as f:
                            keys = sorted(f.keys())
                            blob = f["checkpoint"]["state"][...].tobytes() if "checkpoint" in f and "state" in f["checkpoint"] else None
                        ctx.prove("aspire_config" in keys, "c12/file_has_config", detail={"groups": keys, **d})
                        ctx.prove("flow" in keys, "c12/file_has_proposal", detail={"groups": keys, **d})
                        ctx.prove(blob == last, "c12/aspire_file_is_latest_payload", detail={"file_bytes": None if blob is None else len(blob), "latest_bytes": None if last is None else len(last), **d})
                if last is None:
                    continue
                ctx.reach("c11/resume_constructor")
                res = self._aspire_run(ctx, cfg, fns, path, resume=True)
                if "C12" in self.props:
                    ctx.prove(res.load_error is None, "c12/file_loadable", detail={"error": repr(res.load_error), **d})
                if res.load_error is not None:
                    if "C11" in self.props:
                        ctx.prove(False, "c11/resume_constructor/finished", detail={"error": repr(res.load_error), **d})
                    continue
                if "C11" in self.props:
                    res.kernel_offset = len(pickle.loads(last)["history"].mcmc_acceptance)
                    loop_checks.compare_runs(ctx, ref, res, "c11/resume_constructor", detail=d)
                if "C15" in self.props and not res.stopped and res.final is not None:
                    # the instance rebuilt from the file works in the precision that was saved
                    loop_checks.check_run(ctx, res, {"C15"}, label_suffix="@resume_constructor")
        finally:
            A.get_flow_wrapper = old_wrapper

    def _aspire_run(self, ctx, cfg, fns, path, fail_at=None, resume=False):
        from aspire.aspire import Aspire

        env = smc_loop.RunEnv(ctx, cfg, fns, tag="ref", rng=None, props=self.props)
        env.target.check_c17 = False
        env.target.fail_at = fail_at
        env.sampler_name = "MiniPCNSMC"
        d = env.d
        params = [f"p{k}" for k in range(d)]
        smc_loop.LOOP.current = env
        kw = smc_loop.schedule_kwargs(cfg["schedule"], env.N)
        kw["sampler_kwargs"] = {"n_steps": 1}
        if cfg.get("n_final"):
            kw["n_final_samples"] = env.N + 1
        env.load_error = None
        try:
            if resume:
                try:
                    a = Aspire.resume_from_file(path, log_likelihood=env.target.log_likelihood, log_prior=env.target.log_prior)
                except (KeyError, ValueError, OSError, AttributeError, TypeError) as e:
                    env.load_error = e
                    return env
                env.final = a.sample_posterior(preconditioning="none", **kw)
            else:
                extra = {"dtype": (sx.float32 if cfg["dtype"] == "obj32" else cfg["dtype"])} if cfg.get("dtype") else {}
                a = Aspire(log_likelihood=env.target.log_likelihood, log_prior=env.target.log_prior, dims=d, parameters=params, flow=env.flow, xp=sx, **extra)
                env.final = a.sample_posterior(n_samples=env.N, sampler="smc", checkpoint_path=path, preconditioning="none", **kw)
        except smc_loop._Stop:
            env.stopped = True
        except smc_loop.InjectedFault as e:
            env.exception = e
        env.sampler = a.sampler if "a" in dir() else None
        return env

    # -- cadence (C12) -----------------------------------------------------------
    def flow_cadence(self, ctx, cfg, fns, tmp):
        dom = cfg.get("every_values", [1, 2, 3])
        ce = sx.sym_int("every", dom)
        env = self.new_env(ctx, cfg, fns)
        if cfg.get("cadence_via") == "file":
            # the documented file route: no user callback, the sampler installs its own
            # (observed by wrapping the factory; the real callback still writes the file)
            smp = env.sampler
            orig = smp.default_file_checkpoint_callback

            def factory(path, *a, **k):
                cb = orig(path, *a, **k)

                def both(state):
                    env._callback(state)
                    return cb(state)

                return both

            smp.default_file_checkpoint_callback = factory
            env.run(checkpoint_every=ce, checkpoint_file=os.path.join(tmp, "cadence.h5"))
        else:
            env.run(checkpoint="callback", checkpoint_every=ce)
        if env.stopped:
            raise core.PathCut()
        self.validate_against_numpy(ctx, cfg, env)
        hist = env.sampler.history
        K = len(hist.beta)
        its = [c["iteration"] for c in env.checkpoints]
        t = sx.term(ce)
        for v in dom:
            # cadence 0: no periodic checkpoint, only the one at the end
            want = [i for i in range(1, K + 1) if v > 0 and i % v == 0] + [K]
            ctx.prove(z3.Implies(t == v, z3.BoolVal(its == want)), "c12/cadence", detail={"every": v, "written_at": its, "expected": want, "iterations": K})
        betas = [0.0] + [float(b) for b in hist.beta]
        for j, c in enumerate(env.checkpoints):
            it = c["iteration"]
            last = j == len(env.checkpoints) - 1
            ctx.prove(c["beta"] == betas[it], "c12/payload_current", detail={"checkpoint": j, "beta": c["beta"], "expected": betas[it]})
            ctx.prove(c["n_beta"] == it, "c12/payload_current", detail={"checkpoint": j, "history_len": c["n_beta"]})
            pop = env.final if (last and cfg.get("n_final")) else hist.sample_history[it]
            loop_checks.eq_terms(ctx, c["samples_x"], sx.terms(pop.x), "c12/payload_population", detail={"checkpoint": j})
            if "C10" in self.props:
                pass
        return env

    # -- random sources (C20) ------------------------------------------------------
    def flow_rng(self, ctx, cfg, fns, tmp):
        via = cfg.get("rng_via", "sample")
        runs = []
        import numpy.random as npr

        for rep in range(2):
            n0 = len(smc_loop.KERNEL_LOG["rng_constructed"])
            g = SymRng(ctx, "user", 0)
            # numpy.random.default_rng is instrumented: any generator the library
            # constructs on its own is observed (and is a symbolic stream too)
            real_default_rng = npr.default_rng

            def fake_default_rng(*a, **k):
                r = SymRng(ctx, "fresh", 1000 * (len(smc_loop.KERNEL_LOG["rng_constructed"]) + 1))
                smc_loop.KERNEL_LOG["rng_constructed"].append(r)
                return r

            npr.default_rng = fake_default_rng
            try:
                if via == "aspire":
                    env = self._run_via_aspire(ctx, cfg, fns, g)
                else:
                    env = self.new_env(ctx, cfg, fns, rng=g, rng_via=via)
                    env.run()
            finally:
                npr.default_rng = real_default_rng
            if env.stopped:
                raise core.PathCut()
            made = smc_loop.KERNEL_LOG["rng_constructed"][n0:]
            fresh = sum(1 for r in made if len(r.calls) > 0)
            d = {"via": via, "fresh_generators_constructed": len(made), "fresh_generators_drawn_from": fresh, "user_draws": len(g.calls)}
            # constructing a spare generator is harmless; drawing from one is not
            ctx.prove(fresh == 0, "c20/no_fresh_generator", detail=d)
            ctx.prove(env.sampler.rng is g, "c20/user_generator_used", detail=d)
            ctx.prove(len(g.calls) >= 1, "c20/user_generator_drawn_from", detail=d)
            runs.append(env)
        if all(r.sampler.rng is not None and getattr(r.sampler.rng, "stream", None) == "user" for r in runs):
            loop_checks.compare_runs(ctx, runs[0], runs[1], "c20/identical", detail={"via": via})
            if via == "sample":
                self.validate_against_numpy(ctx, cfg, runs[0], stream="user")
        else:
            # the sampler did not keep the user's generator (reported above):
            # identical output cannot be expected from two fresh generators
            ctx.reach("c20/identical_skipped_generator_replaced")

    def _run_via_aspire(self, ctx, cfg, fns, g):
        """The real Aspire.sample_posterior keyword routing (aspire.py)."""
        from aspire.aspire import Aspire

        env = smc_loop.RunEnv(ctx, cfg, fns, tag="ref", rng=g, props=self.props)
        d = env.d
        a = Aspire(
            log_likelihood=env.target.log_likelihood,
            log_prior=env.target.log_prior,
            dims=d,
            parameters=[f"p{k}" for k in range(d)],
            flow=env.flow,
            xp=sx,
        )
        smc_loop.LOOP.current = env
        kw = smc_loop.schedule_kwargs(cfg["schedule"], env.N)
        kw["sampler_kwargs"] = {"n_steps": 1}
        env.sampler_name = "MiniPCNSMC"
        received = record_sampler_arguments(a)
        try:
            env.final = a.sample_posterior(n_samples=env.N, sampler="smc", rng=g, preconditioning="none", **kw)
        except smc_loop._Stop:
            env.stopped = True
        env.sampler = a.sampler
        # the object that reaches the sampler is the user's generator itself, not a copy
        # (a copy leaves the user's generator untouched: reusing it repeats the stream)
        got = [r for r in received if r.get("rng") is not None]
        ctx.prove(len(got) >= 1 and all(r["rng"] is g for r in got), "c20/generator_routed_unchanged", detail={"sampler_constructions": len(received), "with_generator": len(got)})
        return env

    def to_cex(self, fl):
        env = {k: v for k, v in fl["env"].items() if k != "__purified__"}
        return {"cfg": fl["cfg"], "label": fl["label"], "detail": fl.get("detail"), "env": env, "purified": fl["env"].get("__purified__", {})}

    def replay(self, cex):
        from harness.loop_replay import replay_loop

        ok, msg, info = replay_loop(cex, self.props)
        cex["_info"] = info
        return ok, msg
