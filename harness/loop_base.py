"""Base class of the checks that share the SMC loop harness."""

from __future__ import annotations

import os
import pickle
import shutil
import tempfile

from harness import loop_checks, smc_loop
from harness.common import Check, core, sx, z3
from harness.stubs import SymRng, UserFns


class LoopCheck(Check):
    props: set = set()
    flows = ("plain",)
    stubs = [
        "user log_likelihood / log_prior -> uninterpreted functions L, PI of the coordinates; the likelihood callable also poses the C17 obligations and counts points",
        "prior_flow -> stub: sample_and_log_prob(n) returns fresh symbolic coordinates and Q(x); log_prob(x) = Q(x) (uninterpreted)",
        "numpy.random.Generator / orng.ArrayRNG -> counter-indexed symbolic stream (choice -> symbolic indices in [0,N)); bit_generator.state is (stream, counter)",
        "minipcn / emcee (absent here) -> fake modules: the kernel calls the target it was given on its start positions, consumes the generator it was given and returns fresh symbolic positions keyed by the generator state",
        "SMCSampler.sample -> logging-stripped copy compiled from the current source; its beta_tolerance default is 1/4 in this harness so that every probe temperature is a dyadic rational",
        "preconditioning: the real IdentityTransform",
    ]
    outside = [
        "the inside of minipcn / emcee / blackjax; BlackJAX's mutate (jax vmap/scan) is not executed",
        "bisection tolerances finer than 1/4 inside whole runs",
        "N, T beyond the bounds; log output",
    ]
    bounds = {
        "quick": {"N": 2, "d": 1, "T": 2, "schedules": ["fixed1", "fixed2", "adaptive_half"]},
        "thorough": {"N": [2, 3], "d": [1, 2], "T": 3, "schedules": list(smc_loop.SCHEDULES)},
    }

    def schedules(self, tier):
        return ["fixed1", "fixed2", "adaptive_half"] if tier == "quick" else ["fixed1", "fixed2", "fixed3", "adaptive_half", "adaptive_cap2", "adaptive_free"]

    def configs(self, tier):
        out = []
        for flow in self.flows:
            for sched in self.schedules(tier):
                for n_final in (False, True):
                    if tier == "quick" and n_final and sched != "fixed2":
                        continue
                    samplers = ["MiniPCNSMC"] if tier == "quick" else ["MiniPCNSMC", "EmceeSMC"]
                    for s in samplers:
                        if s == "EmceeSMC" and sched in ("adaptive_half", "adaptive_cap2"):
                            continue  # EmceeSMC.sample does not expose min_step / max_n_steps
                        c = {
                            "name": f"{flow}-{s}-{sched}-{'nf' if n_final else 'std'}",
                            "flow": flow,
                            "schedule": sched,
                            "n_final": n_final,
                            "sampler": s,
                            "N": 2,
                            "d": 1,
                            "T": 2 if tier == "quick" else 3,
                            "D": 4,
                            "timeout_ms": 120000,
                        }
                        out.append(c)
        return out

    def ctx_for(self, cfg, seed):
        return sx.Ctx(self.pid, D=cfg.get("D", 4), seed=seed, timeout_ms=cfg.get("timeout_ms", 120000))

    # ------------------------------------------------------------------
    def harness(self, cfg):
        smc_loop.install_fake_kernels()
        flow = cfg["flow"]

        def h(ctx):
            removed = smc_loop.patch_sample_loop()
            fn = smc_loop._patched["fn"]
            old_defaults = fn.__defaults__
            # beta_tolerance is the last default of SMCSampler.sample
            import inspect

            names = list(inspect.signature(fn).parameters)
            defaults = list(fn.__defaults__)
            n_without = len(names) - len(defaults)
            if "beta_tolerance" not in names:
                raise core.HarnessError("missing SMCSampler.sample(beta_tolerance=...)")
            defaults[names.index("beta_tolerance") - n_without] = 0.25
            fn.__defaults__ = tuple(defaults)
            tmp = None
            try:
                fns = UserFns(cfg.get("d", 1))
                ctx.notes["fns_obj"] = fns
                tmp = tempfile.mkdtemp(prefix="aspire-verif-")
                getattr(self, "flow_" + flow)(ctx, cfg, fns, tmp)
            finally:
                fn.__defaults__ = old_defaults
                smc_loop.unpatch_sample_loop()
                if tmp:
                    shutil.rmtree(tmp, ignore_errors=True)

        return h

    # -- flows -------------------------------------------------------------
    def new_env(self, ctx, cfg, fns, tag="ref", rng=None, rng_via="sample"):
        env = smc_loop.RunEnv(ctx, cfg, fns, tag=tag, rng=rng, props=self.props)
        env.build(cfg["sampler"], rng_via=rng_via)
        return env

    def flow_plain(self, ctx, cfg, fns, tmp):
        env = self.new_env(ctx, cfg, fns)
        env.run()
        if env.stopped and cfg["schedule"] not in loop_checks.TERMINATING:
            raise core.PathCut()
        loop_checks.check_run(ctx, env, self.props)
        return env

    def to_cex(self, fl):
        env = {k: v for k, v in fl["env"].items() if k != "__purified__"}
        return {"cfg": fl["cfg"], "label": fl["label"], "detail": fl.get("detail"), "env": env, "purified": fl["env"].get("__purified__", {})}

    def replay(self, cex):
        from harness.loop_replay import replay_loop

        ok, msg, info = replay_loop(cex, self.props)
        cex["_info"] = info
        return ok, msg
