"""C01 (partial) -- exact unbiasedness of the evidence and of the weighted
particle measure in every finite-support model.

The statement of C01 is about expectations over the Monte-Carlo randomness.  On
a *finite* sample space the expectation is a finite sum, so it can be written
down exactly instead of being estimated: the proposal draws from k support
points with symbolic probabilities q_j, the user's likelihood and prior take
symbolic values L_j, PI_j there, the generator's weighted draw returns index
vector `idx` with the probability the LIBRARY handed to it (prod p[idx_k]) and the
MCMC kernel is a lazy exact kernel whose transition probabilities are computed
from the target log-density the LIBRARY handed to it (stay with probability
1/2, otherwise jump to support point j with probability pi_t(j)).  The real
sampler is executed once per outcome of the (bounded) randomness with these
scripted outcomes; every run yields the SMT term of its evidence estimate and
of the probability of the outcome; the obligation

    sum_outcomes P(outcome) * Zhat(outcome)            ==  sum_j L_j PI_j
    sum_outcomes P(outcome) * Zhat * mean_i f(x_i)     ==  sum_j L_j PI_j f(s_j)

(f = indicator of a support point) is a single polynomial identity over the
positive atoms exp(L_j), exp(PI_j), q_j which the solver decides for ALL values
of the densities at once.  It holds iff importance weights, per-step ratios
(computed before resampling), the resampling probabilities, the tempered kernel
target and the returned population fit together as the SMC theory requires
(Del Moral's unbiasedness of the normalising-constant estimate and of the
unnormalised particle measure) -- any of them being off breaks the identity for
some densities, which the solver then exhibits.

Enumeration of the outcomes is the expectation integral itself (it is not a
sample of runs: every outcome is included with its exact symbolic weight).
Bounds: k = 2 support points, N = 2 particles, fixed schedules of 1 and 2 steps.
Outside: continuous targets, adaptive schedules (their evidence estimate is not
unbiased, only consistent), Monte-Carlo error bounds, the third-party kernels,
preconditioning on/off (its deterministic content -- Jacobians in the kernel
target -- is decided under C04/C05)."""

from __future__ import annotations

import itertools
import sys
import types
from fractions import Fraction

import numpy as np

from harness.common import Check, core, main, sx, z3


def _arr(terms, dt=None):
    out = np.empty((len(terms),), dtype=object)
    for i, t in enumerate(terms):
        out[i] = t
    return sx.Array(out, dt or sx.float64)


class FiniteModel:
    """k support points on the line; symbolic log-likelihood, log-prior and
    log-proposal-probability at each."""

    def __init__(self, ctx, k, uniform_q=False, flat_prior=False):
        import math

        self.k = k
        self.pts = [float(j) for j in range(k)]
        self.ll = [z3.Real(f"ll_{j}") for j in range(k)]
        # optional concretisations keep the polynomial identity of the heavier
        # configurations small: a flat prior on the support, a uniform proposal
        self.lp = [core.rv(0) for j in range(k)] if flat_prior else [z3.Real(f"lp_{j}") for j in range(k)]
        self.lq = [core.rv(-math.log(k)) for j in range(k)] if uniform_q else [z3.Real(f"lq_{j}") for j in range(k)]
        self.uniform_q = uniform_q
        self.param_q = False
        if uniform_q == "param":
            # normalised by construction: q_j = u_j^2 / sum u^2 with free u_j > 0 (the
            # square keeps sqrt(q_j), which half-step tempering needs, rational in the atoms)
            lu = [z3.Real(f"lu_{j}") for j in range(k)]
            S = z3.Sum([sx.term(sx.exp(sx.asarray(2 * t))) for t in lu])
            self.lq = [2 * t - core.sx_log(S) for t in lu]
            self.lu = lu
            self.param_q = True
        self.n_ll_points = 0
        # log|dx/dz| of an arbitrary preconditioning bijection at each support point
        self.lj = [z3.Real(f"lj_{j}") for j in range(k)]

    def index_of(self, x):
        x = sx.asarray(x)
        rows = x.reshape(-1, 1) if x.ndim == 1 else x
        out = []
        for i in range(rows.shape[0]):
            t = core.simp(sx.terms(rows[i])[0])
            if not core.is_num(t):
                raise core.HarnessError(f"finite model handed a non-concrete coordinate {t}")
            v = float(core.frac(t))
            if v not in self.pts:
                raise core.HarnessError(f"finite model handed a coordinate outside the support: {v}")
            out.append(self.pts.index(v))
        return out

    def points(self, js):
        return sx.asarray(np.array([[self.pts[j]] for j in js], dtype=float))

    # user callables ---------------------------------------------------------
    def log_prior(self, samples):
        return _arr([self.lp[j] for j in self.index_of(samples.x)])

    def log_likelihood(self, samples):
        js = self.index_of(samples.x)
        self.n_ll_points += len(js)
        return _arr([self.ll[j] for j in js])

    def log_q(self, x):
        return _arr([self.lq[j] for j in self.index_of(x)])


class FiniteTransform:
    """An arbitrary preconditioning bijection on the finite space: the coordinates of
    the support points are kept (a relabelling would not change anything) and each
    point has its own symbolic log-Jacobian log|dx/dz|.  A cell of x-volume v around
    s_j has z-volume v / J_j, so a kernel that is exact in the z-space visits the cell
    with probability proportional to (z-density) * (z-volume) = target_z(j) / J_j."""

    def __init__(self, model):
        self.m = model
        self.xp = sx
        self.dtype = None

    def fit(self, x):
        return x

    def forward(self, x):
        js = self.m.index_of(x)
        return x, _arr([-self.m.lj[j] for j in js])

    def inverse(self, z):
        js = self.m.index_of(z)
        return sx.asarray(z), _arr([self.m.lj[j] for j in js])


class ScriptFlow:
    xp = sx

    def __init__(self, model, script):
        self.m = model
        self.script = list(script)
        self.n_draws = 0

    def log_prob(self, x):
        return self.m.log_q(x)

    def sample_and_log_prob(self, n):
        self.n_draws += 1
        if self.n_draws > 1 or int(n) != len(self.script):
            raise core.HarnessError(f"finite model: unexpected draw request #{self.n_draws} of {n} points")
        x = self.m.points(self.script)
        return x, self.m.log_q(x)


class _BG:
    state = {"bit_generator": "script"}


class ScriptRng:
    """Generator whose weighted draws are scripted; records the probability
    vector the library handed over."""

    bit_generator = _BG()

    def __init__(self, scripts):
        self.scripts = list(scripts)
        self.p_seen = []
        self.calls = 0

    def choice(self, n, size=None, replace=True, p=None):
        if p is None:
            raise core.HarnessError("finite model: the generator was asked for an unweighted draw")
        self.p_seen.append(sx.asarray(p))
        idx = self.scripts[self.calls]
        self.calls += 1
        m = int(size) if size is not None else 1
        if len(idx) != m or int(n) != len(sx.terms(self.p_seen[-1])):
            raise core.HarnessError(f"finite model: draw of {m} from {n} does not match the script {idx}")
        return np.array(idx, dtype=int)


class _KH:
    acceptance_rate = [0.5]


class LazyExactKernel:
    """minipcn.Sampler stand-in on the finite space.  Transition: with
    probability 1/2 stay, else jump to support point j with probability
    pi(j) = exp(target(j)) / sum_j' exp(target(j')), `target` being the
    log-density the library handed to the kernel.  pi-invariant by
    construction when the target is the tempered posterior."""

    current = None  # (model, list of per-call scripts, log)

    def __init__(self, log_prob_fn, step_fn=None, rng=None, dims=None, target_acceptance_rate=None, xp=None):
        self.log_prob_fn = log_prob_fn

    def sample(self, z, n_steps=None):
        env = LazyExactKernel.current
        m = env["model"]
        call = len(env["log"])
        script = env["scripts"][call] if call < len(env["scripts"]) else None
        cur = m.index_of(z)
        tgt = sx.terms(self.log_prob_fn(m.points(list(range(m.k)))))
        if env.get("precond"):
            # exact kernel in the preconditioned space: z-density times z-volume of the cell
            tgt = [t - m.lj[j] for j, t in enumerate(tgt)]
        e = [sx.term(sx.exp(sx.asarray(t))) for t in tgt]
        tot = z3.Sum(e)
        prob = core.rv(1)
        new = []
        for i, j in enumerate(cur):
            c = script[i] if script is not None else "stay"
            if c == "stay":
                prob = prob * core.rv(Fraction(1, 2)) if env["lazy"] else prob
                new.append(j)
            else:
                prob = prob * core.rv(Fraction(1, 2)) * e[c] / tot
                new.append(c)
        env["log"].append({"from": cur, "to": new, "prob": prob, "target": tgt})
        return [sx.asarray(z), m.points(new)], _KH()


def install_kernel():
    mod = types.ModuleType("minipcn")
    mod.Sampler = LazyExactKernel
    sys.modules["minipcn"] = mod
    o = types.ModuleType("orng")

    class _NoRng:
        def __init__(self, *a, **k):
            raise core.HarnessError("finite model: the library constructed its own generator")

    o.ArrayRNG = _NoRng
    sys.modules["orng"] = o


_CANDIDATE_VALUES = [
    [2, 3, 5, 7, 11, 13, 17, 19],
    ["1/2", 3, "2/3", 5, "7/4", "1/3", 4, "5/2"],
    [3, "1/2", 7, "1/5", 2, 9, "3/4", 6],
]


def prove_identity(ctx, lhs, rhs, label, detail=None):
    """lhs == rhs for all values.  `unsat` from the solver is the only way to succeed.
    A refutation of a large polynomial identity can take nlsat very long to find, so
    the goal is first evaluated at a few fixed rational points of the positive atoms;
    a point where it is false is handed to the solver as a hint (the query pinned to
    that point is decided at once and yields the counterexample, which is then replayed
    like any other)."""
    goal = lhs == rhs
    atoms = [e for (_, e) in ctx.exp_atoms.values()]
    if atoms and not ctx.assume_constrains_atoms:
        for vals in _CANDIDATE_VALUES:
            sub = [(e, z3.RealVal(str(v))) for e, v in zip(atoms, vals)]
            try:
                d = core.simp(z3.substitute(lhs - rhs, *sub))
            except z3.Z3Exception:
                break
            off = None
            if core.is_num(d):
                off = float(core.frac(d))
            else:
                try:  # square roots of the pinned values: evaluate in floats
                    off = float(core.numeval(d, {}, None, ctx.D, ctx.exp_names))
                    scale = abs(float(core.numeval(core.simp(z3.substitute(rhs, *sub)), {}, None, ctx.D, ctx.exp_names))) + 1.0
                    if abs(off) < 1e-9 * scale:
                        off = 0.0
                except Exception:  # noqa: BLE001
                    off = None
            if off:
                pin = z3.And(*[e == v for e, v in sub])
                return ctx.prove(z3.Implies(pin, goal), label, detail={**(detail or {}), "refuted_at_a_fixed_rational_point": True})
    return ctx.prove(goal, label, detail=detail)


class C01(Check):
    pid = "C01"
    required_labels = ["c01/is/evidence_unbiased", "c01/is/measure_unbiased", "c01/smc/evidence_unbiased", "c01/smc/measure_unbiased", "c01/probabilities_sum_to_one"]
    stubs = [
        "proposal -> draws from k support points with symbolic probabilities exp(lq_j) summing to one; log_prob of a point is lq_j",
        "user log_likelihood / log_prior -> symbolic values ll_j, lp_j at the support points",
        "numpy.random.Generator -> scripted weighted draw; the outcome's probability is the product of the entries of the probability vector the library passed",
        "minipcn -> lazy exact kernel on the finite space whose transition probabilities are computed from the target the library passed (stay 1/2, else exact draw from exp(target))",
        "SMCSampler.sample -> logging-stripped copy compiled from the current source",
    ]
    outside = [
        "continuous targets and Monte-Carlo error bounds (replicates): only the exact expectation on finite spaces is decided",
        "adaptive schedules (their evidence estimate is consistent, not unbiased)",
        "the bijectivity and the reported Jacobian of the real transforms (C04; here the preconditioning map is an arbitrary bijection with an arbitrary Jacobian), the third-party kernels, EmceeSMC/BlackJAX variants",
        "beyond k = 2 support points, N = 2 particles, 2 tempering steps (thorough: N = 3 and k = 3 for importance sampling, N = 3 for the identity-kernel SMC run, a 4-step schedule; k = 3 with the SMC loop did not finish in 25 minutes and is not claimed)",
    ]
    bounds = {"quick": {"k": 2, "N": 2, "schedules": ["importance", "smc fixed1", "smc fixed2", "smc fixed2 lazy kernel", "smc fixed2 lazy kernel with preconditioning"]}, "thorough": {"k": [2, 3], "N": [2, 3], "schedules": ["importance", "smc fixed1", "smc fixed2", "smc fixed4", "lazy kernel", "lazy kernel with preconditioning"]}}

    def configs(self, tier):
        out = [
            {"name": "is-N2", "kind": "is", "N": 2, "k": 2, "D": 1, "uniform_q": "param", "timeout_ms": 120000},
            {"name": "is-N2-constrained-q", "kind": "is", "N": 2, "k": 2, "D": 1, "timeout_ms": 120000},
            {"name": "smc-fixed1-N2-identity", "kind": "smc", "n_steps": 1, "N": 2, "k": 2, "D": 1, "lazy": False, "uniform_q": "param", "timeout_ms": 300000},
            {"name": "smc-fixed2-N2-identity", "kind": "smc", "n_steps": 2, "N": 2, "k": 2, "D": 2, "lazy": False, "uniform_q": "param", "timeout_ms": 300000},
            {"name": "smc-fixed2-N2-lazy", "kind": "smc", "n_steps": 2, "N": 2, "k": 2, "D": 2, "lazy": True, "measure": False, "uniform_q": "param", "flat_prior": False, "timeout_ms": 600000},
        ]
        # the same with an arbitrary preconditioning map (symbolic log-Jacobian per point):
        # turning preconditioning on never changes what the run converges to
        out.append({"name": "smc-fixed2-N2-lazy-precond", "kind": "smc", "n_steps": 2, "N": 2, "k": 2, "D": 2, "lazy": True, "measure": False, "uniform_q": "param", "flat_prior": True, "precond": True, "timeout_ms": 600000})
        if tier == "thorough":
            out += [
                {"name": "is-N3", "kind": "is", "N": 3, "k": 2, "D": 1, "uniform_q": "param", "timeout_ms": 300000},
                {"name": "is-N2-k3", "kind": "is", "N": 2, "k": 3, "D": 1, "uniform_q": "param", "timeout_ms": 300000},
                {"name": "smc-fixed1-N2-lazy", "kind": "smc", "n_steps": 1, "N": 2, "k": 2, "D": 1, "lazy": True, "uniform_q": "param", "timeout_ms": 600000},
                {"name": "smc-fixed2-N2-identity-constrained-q", "kind": "smc", "n_steps": 2, "N": 2, "k": 2, "D": 2, "lazy": False, "timeout_ms": 600000},
                {"name": "smc-fixed2-N3-identity", "kind": "smc", "n_steps": 2, "N": 3, "k": 2, "D": 2, "lazy": False, "measure": False, "uniform_q": "param", "timeout_ms": 900000},
                {"name": "smc-fixed4-N2-identity", "kind": "smc", "n_steps": 4, "N": 2, "k": 2, "D": 4, "lazy": False, "measure": False, "uniform_q": "param", "flat_prior": True, "timeout_ms": 900000},
            ]
        return out

    def ctx_for(self, cfg, seed):
        return sx.Ctx(self.pid, D=cfg.get("D", 1), seed=seed, timeout_ms=cfg.get("timeout_ms", 120000))

    # ------------------------------------------------------------------
    def harness(self, cfg):
        return self.h_is(cfg) if cfg["kind"] == "is" else self.h_smc(cfg)

    def _model(self, ctx, cfg):
        m = FiniteModel(ctx, cfg["k"], uniform_q=cfg.get("uniform_q") or False, flat_prior=bool(cfg.get("flat_prior")))
        eq = [sx.term(sx.exp(sx.asarray(t))) for t in m.lq]
        ctx.assume_constrains_atoms = not m.uniform_q
        if not m.uniform_q:
            ctx.add_assume(z3.Sum(eq) == 1)
        Z = z3.Sum([sx.term(sx.exp(sx.asarray(a + b))) for a, b in zip(m.ll, m.lp)])
        gam = [sx.term(sx.exp(sx.asarray(a + b))) for a, b in zip(m.ll, m.lp)]
        return m, eq, Z, gam

    def h_is(self, cfg):
        from aspire.samplers.importance import ImportanceSampler

        N, k = cfg["N"], cfg["k"]

        def h(ctx):
            m, eq, Z, gam = self._model(ctx, cfg)
            tot_p = core.rv(0)
            tot_z = core.rv(0)
            tot_f = [core.rv(0) for _ in range(k)]
            for x0 in itertools.product(range(k), repeat=N):
                smp = ImportanceSampler(log_likelihood=m.log_likelihood, log_prior=m.log_prior, dims=1, prior_flow=ScriptFlow(m, x0), xp=sx, parameters=["p0"])
                out = smp.sample(N)
                P = core.rv(1)
                for j in x0:
                    P = P * eq[j]
                zhat = sx.term(sx.exp(sx.asarray(out.log_evidence)))
                W = sx.terms(out.weights)
                sw = z3.Sum(W)
                tot_p = tot_p + P
                tot_z = tot_z + P * zhat
                js = m.index_of(out.x)
                for j in range(k):
                    # self-normalised weighted mean of the indicator of s_j, times Zhat
                    num = z3.Sum([W[i] for i in range(N) if js[i] == j]) if any(jj == j for jj in js) else core.rv(0)
                    tot_f[j] = tot_f[j] + P * zhat * num / sw
            prove_identity(ctx, tot_p, core.rv(1), "c01/probabilities_sum_to_one")
            prove_identity(ctx, tot_z, Z, "c01/is/evidence_unbiased")
            for j in range(k):
                prove_identity(ctx, tot_f[j], gam[j], "c01/is/measure_unbiased", detail={"support_point": j})

        return h

    def h_smc(self, cfg):
        from harness import smc_loop
        from harness.c05 import get_sampler_class

        N, k, n_steps, lazy = cfg["N"], cfg["k"], cfg["n_steps"], cfg["lazy"]
        measure = cfg.get("measure", True)

        def h(ctx):
            install_kernel()
            smc_loop.patch_sample_loop()
            try:
                self._h_smc(ctx, cfg, get_sampler_class("MiniPCNSMC"), N, k, n_steps, lazy, measure)
            finally:
                smc_loop.unpatch_sample_loop()
                smc_loop.install_fake_kernels()

        return h

    def _h_smc(self, ctx, cfg, S, N, k, n_steps, lazy, measure):
        m, eq, Z, gam = self._model(ctx, cfg)
        kchoices = (["stay"] + list(range(k))) if lazy else ["stay"]
        tot_p = core.rv(0)
        tot_z = core.rv(0)
        tot_f = [core.rv(0) for _ in range(k)]
        n_runs = 0
        # the last resampling and the last kernel move do not enter the evidence;
        # they are enumerated only when the returned population is looked at
        idx_lists = [list(itertools.product(range(N), repeat=N)) for _ in range(n_steps)]
        k_lists = [list(itertools.product(kchoices, repeat=N)) for _ in range(n_steps)]
        if not measure:
            idx_lists[-1] = [tuple(range(N))]
            k_lists[-1] = [tuple(["stay"] * N)]
        for x0 in itertools.product(range(k), repeat=N):
            for idxs in itertools.product(*idx_lists):
                for kerns in itertools.product(*k_lists):
                    rng = ScriptRng(idxs)
                    LazyExactKernel.current = {"model": m, "scripts": list(kerns), "log": [], "lazy": lazy, "precond": bool(cfg.get("precond"))}
                    extra = {"preconditioning_transform": FiniteTransform(m)} if cfg.get("precond") else {}
                    smp = S(log_likelihood=m.log_likelihood, log_prior=m.log_prior, dims=1, prior_flow=ScriptFlow(m, x0), xp=sx, parameters=["p0"], **extra)
                    out = smp.sample(N, adaptive=False, n_steps=n_steps, rng=rng, sampler_kwargs={"n_steps": 1})
                    n_runs += 1
                    log = LazyExactKernel.current["log"]
                    if len(rng.p_seen) != n_steps or len(log) != n_steps:
                        ctx.prove(False, "c01/smc/run_shape", detail={"weighted_draws": len(rng.p_seen), "kernel_calls": len(log), "steps": n_steps})
                        return
                    P = core.rv(1)
                    for j in x0:
                        P = P * eq[j]
                    for t in range(n_steps):
                        if not measure and t == n_steps - 1:
                            continue  # summed out (probabilities sum to one)
                        pv = sx.terms(rng.p_seen[t])
                        for i in idxs[t]:
                            P = P * pv[i]
                        P = P * log[t]["prob"]
                    zhat = sx.term(sx.exp(sx.asarray(out.log_evidence)))
                    tot_p = tot_p + P
                    tot_z = tot_z + P * zhat
                    if measure:
                        js = m.index_of(out.x)
                        for j in range(k):
                            cnt = sum(1 for jj in js if jj == j)
                            tot_f[j] = tot_f[j] + P * zhat * core.rv(Fraction(cnt, len(js)))
        ctx.notes["c01_runs"] = n_runs
        prove_identity(ctx, tot_p, core.rv(1), "c01/probabilities_sum_to_one", detail={"runs": n_runs})
        prove_identity(ctx, tot_z, Z, "c01/smc/evidence_unbiased", detail={"runs": n_runs})
        if measure:
            for j in range(k):
                prove_identity(ctx, tot_f[j], gam[j], "c01/smc/measure_unbiased", detail={"support_point": j, "runs": n_runs})

    # ------------------------------------------------------------------
    def to_cex(self, fl):
        env = {k: v for k, v in fl["env"].items() if k != "__purified__" and "!" not in k}
        return {"cfg": fl["cfg"], "label": fl["label"], "detail": fl.get("detail"), "env": env}

    def replay(self, cex):
        return replay_c01(cex)


# ---------------------------------------------------------------------------
# concrete replay: the same finite expectation in floating point on NumPy


def replay_c01(cex):
    import math

    from harness import loop_replay as LR

    cfg = cex["cfg"]
    env = cex.get("env", {})
    N, k = cfg["N"], cfg["k"]

    def val(name, default):
        v = env.get(name)
        try:
            return float(v) if v is not None else default
        except (TypeError, ValueError):
            return default

    ll = [val(f"ll_{j}", -0.3 * j) for j in range(k)]
    lp = [0.0] * k if cfg.get("flat_prior") else [val(f"lp_{j}", -0.2 * (k - j)) for j in range(k)]
    if any(f"lu_{j}" in env for j in range(k)) or cfg.get("uniform_q") == "param":
        lu = [val(f"lu_{j}", 0.1 * j) for j in range(k)]
        lq = [2 * u for u in lu]
    elif cfg.get("uniform_q"):
        lq = [math.log(1.0 / k)] * k
    else:
        lq = [val(f"lq_{j}", math.log(1.0 / k)) for j in range(k)]
    if cfg.get("flat_prior"):
        pass
    # renormalise the proposal (the model satisfies sum exp(lq) = 1 up to rounding)
    s = math.log(sum(math.exp(v) for v in lq))
    lq = [v - s for v in lq]
    pts = [float(j) for j in range(k)]
    lj = [val(f"lj_{j}", 0.4 * (j + 1)) for j in range(k)]

    class Tr:
        xp = np
        dtype = None

        def fit(self, x):
            return x

        def inverse(self, z):
            return np.asarray(z), np.array([lj[j] for j in idx_of(z)])

        def forward(self, x):
            return np.asarray(x), -np.array([lj[j] for j in idx_of(x)])

    def idx_of(x):
        return [pts.index(float(v)) for v in np.asarray(x, float).reshape(-1)]

    class Flow:
        xp = np

        def __init__(self, script):
            self.script = script

        def log_prob(self, x):
            return np.array([lq[j] for j in idx_of(x)])

        def sample_and_log_prob(self, n):
            x = np.array([[pts[j]] for j in self.script])
            return x, self.log_prob(x)

    def lprior(s):
        return np.array([lp[j] for j in idx_of(s.x)])

    def llike(s):
        return np.array([ll[j] for j in idx_of(s.x)])

    Z = sum(math.exp(a + b) for a, b in zip(ll, lp))
    gam = [math.exp(a + b) for a, b in zip(ll, lp)]
    tot_p, tot_z, tot_f = 0.0, 0.0, [0.0] * k
    bad = []
    with np.errstate(all="ignore"):
        if cfg["kind"] == "is":
            from aspire.samplers.importance import ImportanceSampler

            for x0 in itertools.product(range(k), repeat=N):
                smp = ImportanceSampler(log_likelihood=llike, log_prior=lprior, dims=1, prior_flow=Flow(x0), xp=np, parameters=["p0"])
                out = smp.sample(N)
                P = math.prod(math.exp(lq[j]) for j in x0)
                zhat = math.exp(float(out.log_evidence))
                W = np.asarray(out.weights, float)
                tot_p += P
                tot_z += P * zhat
                js = idx_of(out.x)
                for j in range(k):
                    tot_f[j] += P * zhat * sum(W[i] for i in range(N) if js[i] == j) / W.sum()
            tag = "is"
        else:
            from harness.c05 import get_sampler_class

            S = get_sampler_class("MiniPCNSMC")
            n_steps, lazy, measure = cfg["n_steps"], cfg["lazy"], cfg.get("measure", True)
            kchoices = (["stay"] + list(range(k))) if lazy else ["stay"]

            class Rng:
                bit_generator = _BG()

                def __init__(self, scripts):
                    self.scripts, self.p_seen, self.calls = scripts, [], 0

                def choice(self, n, size=None, replace=True, p=None):
                    self.p_seen.append(np.asarray(p, float))
                    self.calls += 1
                    return np.array(self.scripts[self.calls - 1], dtype=int)

            state = {}

            class Kern:
                def __init__(self, log_prob_fn, **kw):
                    self.f = log_prob_fn

                def sample(self, z, n_steps=None):
                    call = len(state["log"])
                    script = state["scripts"][call]
                    cur = idx_of(z)
                    tgt = np.asarray(self.f(np.array([[p] for p in pts])), float)
                    if cfg.get("precond"):
                        tgt = tgt - np.asarray(lj)
                    e = np.exp(tgt - tgt.max())
                    pi = e / e.sum()
                    prob, new = 1.0, []
                    for i, j in enumerate(cur):
                        c = script[i]
                        if c == "stay":
                            prob *= 0.5 if lazy else 1.0
                            new.append(j)
                        else:
                            prob *= 0.5 * pi[c]
                            new.append(c)
                    state["log"].append(prob)
                    return [np.asarray(z), np.array([[pts[j]] for j in new])], _KH()

            mod = types.ModuleType("minipcn")
            mod.Sampler = Kern
            old = sys.modules.get("minipcn")
            sys.modules["minipcn"] = mod
            o = types.ModuleType("orng")
            o.ArrayRNG = lambda *a, **kw: None
            old_o = sys.modules.get("orng")
            sys.modules["orng"] = o
            try:
                idx_lists = [list(itertools.product(range(N), repeat=N)) for _ in range(n_steps)]
                k_lists = [list(itertools.product(kchoices, repeat=N)) for _ in range(n_steps)]
                if not measure:
                    idx_lists[-1] = [tuple(range(N))]
                    k_lists[-1] = [tuple(["stay"] * N)]
                for x0 in itertools.product(range(k), repeat=N):
                    for idxs in itertools.product(*idx_lists):
                        for kerns in itertools.product(*k_lists):
                            rng = Rng(idxs)
                            state.update(scripts=list(kerns), log=[])
                            extra = {"preconditioning_transform": Tr()} if cfg.get("precond") else {}
                            smp = S(log_likelihood=llike, log_prior=lprior, dims=1, prior_flow=Flow(x0), xp=np, parameters=["p0"], **extra)
                            out = smp.sample(N, adaptive=False, n_steps=n_steps, rng=rng, sampler_kwargs={"n_steps": 1})
                            if len(rng.p_seen) != n_steps or len(state["log"]) != n_steps:
                                return True, f"C01: a fixed schedule of {n_steps} steps performed {len(rng.p_seen)} weighted draws and {len(state['log'])} kernel calls"
                            P = math.prod(math.exp(lq[j]) for j in x0)
                            for t in range(n_steps):
                                if not measure and t == n_steps - 1:
                                    continue
                                P *= math.prod(rng.p_seen[t][i] for i in idxs[t]) * state["log"][t]
                            zhat = math.exp(float(out.log_evidence))
                            tot_p += P
                            tot_z += P * zhat
                            if measure:
                                js = idx_of(out.x)
                                for j in range(k):
                                    tot_f[j] += P * zhat * sum(1 for jj in js if jj == j) / len(js)
            finally:
                if old is not None:
                    sys.modules["minipcn"] = old
                if old_o is not None:
                    sys.modules["orng"] = old_o
            tag = "smc"
    rel = lambda a, b: abs(a - b) > 1e-7 * max(1.0, abs(a), abs(b))  # noqa: E731
    if rel(tot_p, 1.0):
        bad.append(f"outcome probabilities sum to {tot_p!r}")
    if rel(tot_z, Z):
        bad.append(f"[{tag}] E[Zhat] = {tot_z!r} but Z = {Z!r} (ll={ll}, lp={lp}, lq={lq})")
    if cfg["kind"] == "is" or cfg.get("measure", True):
        for j in range(k):
            if rel(tot_f[j], gam[j]):
                bad.append(f"[{tag}] E[Zhat * mass at s_{j}] = {tot_f[j]!r} but gamma_{j} = {gam[j]!r}")
    return (len(bad) > 0, "C01: " + "; ".join(bad[:2]) if bad else "the finite expectation identities hold on this input")


if __name__ == "__main__":
    raise SystemExit(main(C01()))
