"""Obligations posed on runs of the SMC loop harness (harness.smc_loop).

`check_run` poses the per-run clauses of C06 (loop level), C08, C10, C17 and
C18 on one finished run; `compare_runs` poses the C11 clauses on a resumed run
against its reference; `cadence` the C12 clauses on the callback sequence."""

from __future__ import annotations

from fractions import Fraction

from harness.common import core, sx, z3
from harness.smc_loop import SCHEDULES, eq_terms, omegas, pop_w

TERMINATING = {"fixed1", "fixed2", "fixed4", "fixed4_cap2", "adaptive_half", "adaptive_cap2", "adaptive_cap3"}


def _t(x):
    return sx.term(x) if isinstance(x, sx.Array) else core.rv(float(x))


def check_population(ctx, fns, pop, label, need_q=True, detail=None):
    """C10: stored log-densities are the user functions at the row's own coordinates."""
    n = pop.x.shape[0]
    ok = pop.log_likelihood is not None and pop.log_prior is not None and (pop.log_q is not None or not need_q)
    ctx.prove(bool(ok), label + "/fields_present", detail=detail)
    if not ok:
        return
    ll, lp = sx.terms(pop.log_likelihood), sx.terms(pop.log_prior)
    lq = sx.terms(pop.log_q) if pop.log_q is not None else None
    ctx.prove(len(ll) == n and len(lp) == n and (lq is None or len(lq) == n), label + "/lengths", detail=detail)
    for i in range(n):
        r = sx.terms(pop.x[i])
        g = [ll[i] == fns.L(*r), lp[i] == fns.PI(*r)]
        if lq is not None and need_q:
            g.append(lq[i] == fns.Q(*r))
        ctx.prove(z3.And(*g), label, detail={"row": i, **(detail or {})})


def check_precision(ctx, pop, want, label, detail):
    """C15: the population object and every array it holds have the requested width."""
    got = {"dtype": repr(getattr(pop, "dtype", None))}
    ok = getattr(pop, "dtype", None) == want
    for f in ("x", "log_likelihood", "log_prior", "log_q", "log_w", "weights"):
        a = getattr(pop, f, None)
        if a is None:
            continue
        dt = getattr(a, "dtype", None)
        got[f] = repr(dt)
        ok = ok and dt == want
    ctx.prove(bool(ok), label, detail={"requested": repr(want), "found": got, **detail})


def check_count(ctx, env, label, detail=None):
    """C17: the reported number of likelihood evaluations is the number of points the
    user's likelihood was asked for.  For a sampler that resumed an interrupted run the
    statement admits two readings -- the points asked of THIS sampler, or those plus all
    the points asked of the interrupted run -- and either is accepted; nothing else is."""
    smp = env.sampler
    own = env.target.n_points
    allowed = [own]
    before = getattr(env, "points_asked_before", None)
    if before is not None:
        allowed.append(own + before)
    ctx.prove(
        smp.n_likelihood_evaluations in allowed,
        label,
        detail={"reported": smp.n_likelihood_evaluations, "asked_of_this_sampler": own, "asked_of_the_interrupted_run": before, **(detail or {})},
    )


def check_run(ctx, env, props, label_suffix=""):
    smp = env.sampler
    fns = env.fns
    hist = smp.history
    cfg = env.cfg
    N = env.N
    sfx = label_suffix
    K = len(hist.beta)
    sched = SCHEDULES[cfg["schedule"]]

    # ---- C06 (loop level) -----------------------------------------------------
    if "C06" in props:
        if env.stopped:
            if cfg["schedule"] in TERMINATING:
                ctx.prove(False, "c06/terminates" + sfx, detail={"iterations": K, "betas": list(hist.beta)})
            return False
        betas = [0.0] + [float(b) for b in hist.beta]
        inc = all(b2 > b1 for b1, b2 in zip(betas, betas[1:])) and all(0 < b <= 1 for b in betas[1:])
        ctx.prove(inc, "c06/ladder_increasing" + sfx, detail={"betas": betas})
        cap = sched.get("max_n_steps")
        ctx.prove(betas[-1] == 1.0 or (cap is not None and K == cap), "c06/ends_at_one" + sfx, detail={"betas": betas})
        if sched.get("n_steps"):
            want = sched["n_steps"] if cap is None else min(cap, sched["n_steps"])
            ctx.prove(K == want, "c06/fixed_iterations" + sfx, detail={"iterations": K, "expected": want})
        if cap is not None:
            ctx.prove(K <= cap, "c06/cap_honoured" + sfx, detail={"iterations": K})
        if sched.get("min_step"):
            ok = all(b2 - b1 >= sched["min_step"] or b2 == 1.0 for b1, b2 in zip(betas, betas[1:]))
            ctx.prove(ok, "c06/min_step_honoured_loop" + sfx, detail={"betas": betas})
    if env.stopped or env.final is None:
        return False

    final = env.final
    pops = hist.sample_history
    betas = [0.0] + [float(b) for b in hist.beta]

    # ---- C18 ------------------------------------------------------------------
    if "C18" in props:
        for name in ("beta", "ess", "ess_target", "eff_target", "log_norm_ratio", "log_norm_ratio_var"):
            ctx.prove(len(getattr(hist, name)) == K, "c18/series_len" + sfx, detail={"series": name, "len": len(getattr(hist, name)), "iterations": K})
        n_kernel = len(env.kernel_inputs) + getattr(env, "kernel_offset", 0)
        ctx.prove(len(hist.mcmc_acceptance) == n_kernel, "c18/acceptance_len" + sfx, detail={"len": len(hist.mcmc_acceptance), "kernel_calls": n_kernel})
        ctx.prove(len(pops) == K + 1, "c18/sample_history_len" + sfx, detail={"len": len(pops), "iterations": K})
    if len(pops) != K + 1:
        return False

    # per-step recomputation from the stored populations
    for t in range(K):
        w = pop_w(fns, pops[t])
        om = omegas(w, betas[t], betas[t + 1])
        s1 = z3.Sum(om)
        s2 = z3.Sum([o * o for o in om])
        if "C08" in props:
            r = sx.term(sx.exp(sx.asarray(hist.log_norm_ratio[t])))
            ctx.prove(r * N == s1, "c08/step_ratio" + sfx, detail={"step": t})
            v = _t(hist.log_norm_ratio_var[t])
            mean = s1 / N
            var = z3.Sum([(o - mean) * (o - mean) for o in om]) / N
            ctx.prove(v * N * mean * mean == var, "c08/step_variance" + sfx, detail={"step": t})
            ctx.prove(v >= 0, "c08/step_variance_nonneg" + sfx, detail={"step": t})
        if "C18" in props:
            ctx.prove(_t(hist.ess[t]) * s2 == s1 * s1, "c18/ess" + sfx, detail={"step": t})
            om1 = omegas(w, betas[t], 1.0)
            a1 = z3.Sum(om1)
            a2 = z3.Sum([o * o for o in om1])
            ctx.prove(_t(hist.ess_target[t]) * a2 == a1 * a1, "c18/ess_target" + sfx, detail={"step": t})
            ctx.prove(pops[t].beta == betas[t], "c18/population_beta" + sfx, detail={"step": t, "pop_beta": pops[t].beta})
            ctx.prove(_t(hist.eff_target[t]) == _t(smp.current_target_efficiency(betas[t + 1])), "c18/eff_target" + sfx, detail={"step": t})
    if "C18" in props and K >= 1:
        ctx.prove(pops[K].beta == betas[K], "c18/population_beta" + sfx, detail={"step": K})

    if "C08" in props:
        total = z3.Sum([_t(a) for a in hist.log_norm_ratio]) if K else core.rv(0)
        ctx.prove(_t(final.log_evidence) == total, "c08/evidence_is_sum" + sfx)
        ev2 = z3.Sum([_t(a) for a in hist.log_norm_ratio_var]) if K else core.rv(0)
        e = _t(final.log_evidence_error)
        # each summand was shown non-negative above (c08/step_variance_nonneg);
        # used here as a premise so that the root obligation stays small
        nonneg = z3.And(*[_t(a) >= 0 for a in hist.log_norm_ratio_var]) if K else z3.BoolVal(True)
        ctx.prove(z3.Implies(nonneg, z3.And(e >= 0, e * e == ev2)), "c08/error_is_root_sum_var" + sfx)

    # ---- C09 (loop level) -------------------------------------------------------
    if "C09" in props:
        rng = env.rng
        n_res = K + (1 if cfg.get("n_final") else 0)
        ok = ctx.prove(
            len(rng.p_seen) == n_res and len(rng.idx_seen) == n_res and len(env.kernel_inputs) == n_res,
            "c09/one_draw_per_step" + sfx,
            detail={"weighted_draws": len(rng.p_seen), "kernel_calls": len(env.kernel_inputs), "resampling_steps": n_res},
        )
        for t in range(n_res if ok else 0):
            src = pops[min(t, K)]
            b0, b1 = betas[min(t, K)], (betas[t + 1] if t < K else 1.0)
            M = N if t < K else N + 1
            om = omegas(pop_w(fns, src), b0, b1)
            s1 = z3.Sum(om)
            pv = sx.terms(rng.p_seen[t])
            d = {"step": t, "final_stage": t >= K}
            if ctx.prove(len(pv) == len(om), "c09/prob_len" + sfx, detail=d):
                for i in range(len(om)):
                    ctx.prove(pv[i] * s1 == om[i], "c09/prob_proportional" + sfx, detail={**d, "row": i})
            idx = sx.terms(rng.idx_seen[t])
            z = env.kernel_inputs[t][0]
            if not ctx.prove(len(idx) == M and z.shape[0] == M, "c09/size" + sfx, detail={**d, "drawn": len(idx), "moved": z.shape[0], "requested": M}):
                continue
            X = [sx.terms(src.x[j]) for j in range(src.x.shape[0])]
            for k in range(M):
                zk = sx.terms(z[k])
                for j in range(len(X)):
                    ctx.prove(z3.Implies(idx[k] == j, z3.And(*[a == b for a, b in zip(zk, X[j])])), "c09/row_copy" + sfx, detail={**d, "row": k})

    # ---- C10 ------------------------------------------------------------------
    if "C10" in props:
        for t, p in enumerate(pops):
            check_population(ctx, fns, p, "c10/history" + sfx, detail={"population": t})
        check_population(ctx, fns, final, "c10/final" + sfx, need_q=False)
        want = N + 1 if cfg.get("n_final") else N
        ctx.prove(len(final.x) == want, "c10/final_size" + sfx, detail={"len": len(final.x), "want": want})
        ctx.prove(len(pops[0].x) == N, "c10/initial_size" + sfx)
        for ck in env.checkpoints:
            pass

    # ---- C15 (precision clause) -----------------------------------------------
    if "C15" in props:
        want = sx.float32 if cfg.get("dtype") in ("float32", "obj32") else sx.float64
        for t, p in enumerate(pops):
            check_precision(ctx, p, want, "c15/history" + sfx, {"population": t})
        check_precision(ctx, final, want, "c15/final" + sfx, {})
        for j, ck in enumerate(env.checkpoints):
            check_precision(ctx, ck["live_state"]["samples"], want, "c15/checkpoint" + sfx, {"checkpoint": j})

    # ---- C17 ------------------------------------------------------------------
    if "C17" in props:
        check_count(ctx, env, "c17/count" + sfx)
    return True


def compare_runs(ctx, ref, res, label, detail=None):
    """C11: the resumed run `res` ends like the uninterrupted run `ref`."""
    d = detail or {}
    if res.stopped or res.final is None or ref.final is None:
        ctx.prove(False, label + "/finished", detail={"stopped": res.stopped, "exception": repr(res.exception), **d})
        return False
    h1, h2 = ref.sampler.history, res.sampler.history
    b1, b2 = [float(b) for b in h1.beta], [float(b) for b in h2.beta]
    if not ctx.prove(b1 == b2, label + "/ladder", detail={"reference": b1, "resumed": b2, **d}):
        return False
    ok = ctx.prove(len(h1.sample_history) == len(h2.sample_history), label + "/history_len", detail={"reference": len(h1.sample_history), "resumed": len(h2.sample_history), **d})
    for name in ("log_norm_ratio", "log_norm_ratio_var", "ess", "ess_target", "eff_target"):
        a, b = getattr(h1, name), getattr(h2, name)
        ok = eq_terms(ctx, [ _t(x) for x in a], [_t(x) for x in b], label + "/series", detail={"series": name, **d}) and ok
    ok = ctx.prove([float(a) for a in h1.mcmc_acceptance] == [float(a) for a in h2.mcmc_acceptance], label + "/series", detail={"series": "mcmc_acceptance", **d}) and ok
    if len(h1.sample_history) == len(h2.sample_history):
        for t, (p, q) in enumerate(zip(h1.sample_history, h2.sample_history)):
            for f in ("x", "log_likelihood", "log_prior", "log_q"):
                eq_terms(ctx, sx.terms(getattr(p, f)), sx.terms(getattr(q, f)), label + "/populations", detail={"population": t, "field": f, **d})
            ctx.prove(p.beta == q.beta, label + "/populations", detail={"population": t, "field": "beta", **d})
    f1, f2 = ref.final, res.final
    for f in ("x", "log_likelihood", "log_prior"):
        eq_terms(ctx, sx.terms(getattr(f1, f)), sx.terms(getattr(f2, f)), label + "/final", detail={"field": f, **d})
    ctx.prove(_t(f1.log_evidence) == _t(f2.log_evidence), label + "/evidence", detail=d)
    ctx.prove(_t(f1.log_evidence_error) == _t(f2.log_evidence_error), label + "/evidence", detail=d)
    return ok
