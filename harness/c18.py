from harness.common import main
from harness.loop_base import LoopCheck


class C18(LoopCheck):
    pid = "C18"
    props = {"C18"}
    flows = ("plain", "resume", "twice")
    thorough_schedules = ["fixed1", "fixed2", "fixed4", "adaptive_half"]
    adaptive_N3 = ("adaptive_half",)
    required_labels = []


def _configs(self, tier):
    out = [c for c in LoopCheck.configs(self, tier) if not (c["flow"] == "twice" and (c["n_final"] or c["schedule"] != "fixed2"))]
    if tier == "quick":
        # three particles, coarse tolerance: the minimum-step floor really binds
        # (the bisection result lies below it) on some paths, at low cost
        base = [c for c in out if c["name"] == "plain-MiniPCNSMC-adaptive_half-std"][0]
        c = dict(base)
        c.update(N=3, tol=0.5, D=2, name="plain-MiniPCNSMC-adaptive_half-N3-tol0.5", split_depth=5)
        out.append(c)
    return out


C18.configs = _configs


if __name__ == "__main__":
    raise SystemExit(main(C18()))
