from harness.common import main
from harness.loop_base import LoopCheck


class C18(LoopCheck):
    pid = "C18"
    props = {"C18"}
    flows = ("plain", "resume")
    thorough_schedules = ["fixed1", "fixed2", "fixed4", "adaptive_half"]
    adaptive_N3 = ("adaptive_half",)
    required_labels = []


if __name__ == "__main__":
    raise SystemExit(main(C18()))
