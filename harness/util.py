"""Small helpers shared by the harnesses (concrete side: replay and
translator validation run the real code on plain NumPy)."""

from __future__ import annotations

import numpy as np


def env_array(env, name, shape, default=0.0):
    out = np.zeros(shape, dtype=float)
    if shape == ():
        v = env.get(name)
        return float(default if v is None else v)
    for idx in np.ndindex(*shape):
        v = env.get(name + "_" + "_".join(str(i) for i in idx))
        out[idx] = default if v is None else float(v)
    return out.tolist()


def np_samples(env, N, cls=None, d=1):
    from aspire.samples import Samples

    cls = cls or Samples
    ll = np.asarray(env_array(env, "ll", (N,)))
    lp = np.asarray(env_array(env, "lp", (N,)))
    lq = np.asarray(env_array(env, "lq", (N,)))
    x = np.asarray(env_array(env, "x", (N, d)))
    with np.errstate(all="raise"):
        return cls(x=x, log_likelihood=ll, log_prior=lp, log_q=lq)


class ScriptedRng:
    """Concrete generator for replays: returns scripted draws."""

    def __init__(self, choices=None, uniforms=None):
        self.choices = list(choices or [])
        self.uniforms = list(uniforms or [])
        self.p_seen = []

    def choice(self, n, size=None, replace=True, p=None):
        self.p_seen.append(np.asarray(p, dtype=float))
        return np.asarray(self.choices.pop(0), dtype=int)

    def uniform(self, low=0.0, high=1.0, size=None):
        return np.asarray(self.uniforms.pop(0), dtype=float)

    def permutation(self, n):
        self.other_calls = getattr(self, "other_calls", 0) + 1
        return np.arange(int(n))
