"""C12 part 2 -- the in-place overwrite of the pickled checkpoint blob.

The real `utils.dump_pickle_to_hdf` is executed (its code object re-bound so
that `np.frombuffer` yields a blob of *symbolic* length) against a model of an
HDF5 group/dataset with h5py's documented semantics: `create_dataset(shape,
maxshape)`, `resize` (shrink truncates, grow zero-fills, only if resizable),
`ds[:] = data` / `ds[:k] = data` (shape mismatch raises).  Lengths are z3
integers, contents z3 arrays; the quantified index of "content equal at every
position" is a Skolem constant."""

from __future__ import annotations

import types

import z3

from harness.common import core, sx

I = z3.IntSort()


class SymBool:
    def __init__(self, t):
        self.t = t

    def __bool__(self):
        return core.cur().branch(self.t)


class SymInt:
    def __init__(self, t):
        self.t = t if isinstance(t, z3.ExprRef) else z3.IntVal(int(t))

    def _o(self, o):
        return o.t if isinstance(o, SymInt) else z3.IntVal(int(o))

    def __eq__(self, o):
        return SymBool(self.t == self._o(o))

    def __ne__(self, o):
        return SymBool(self.t != self._o(o))

    def __lt__(self, o):
        return SymBool(self.t < self._o(o))

    def __gt__(self, o):
        return SymBool(self.t > self._o(o))

    def __le__(self, o):
        return SymBool(self.t <= self._o(o))

    def __ge__(self, o):
        return SymBool(self.t >= self._o(o))

    def __hash__(self):
        return id(self)

    def __index__(self):
        raise core.HarnessError("symbolic length used as a concrete index")


class SymBlob:
    """What np.frombuffer(memfp.read(), dtype='S1') returns: M bytes B[0..M)."""

    dtype = "S1"

    def __init__(self, M, B):
        self.M, self.B = M, B
        self.size = SymInt(M)
        self.shape = (SymInt(M),)

    def __len__(self):
        raise core.HarnessError("len() of the symbolic blob")


class FakeDataset:
    def __init__(self, length, content, resizable):
        self.length = length  # z3 Int
        self.content = content  # python function: z3 Int index -> z3 Int byte
        self.resizable = resizable
        self.ops = []

    @property
    def shape(self):
        return (SymInt(self.length),)

    def resize(self, size, axis=None):
        if not self.resizable:
            raise TypeError("Only chunked datasets can be resized")
        new = size[0] if isinstance(size, (tuple, list)) else size
        new = new.t if isinstance(new, SymInt) else z3.IntVal(int(new))
        old_len, old = self.length, self.content
        self.content = lambda i, old_len=old_len, old=old: z3.If(i < old_len, old(i), z3.IntVal(0))
        self.length = new
        self.ops.append("resize")

    def __setitem__(self, key, value):
        if not isinstance(value, SymBlob):
            raise core.HarnessError("dataset written with something else than the blob")
        if isinstance(key, slice) and key.start is None and key.step is None:
            stop = self.length if key.stop is None else (key.stop.t if isinstance(key.stop, SymInt) else z3.IntVal(int(key.stop)))
            # the selection is [0, min(stop, length)); its size must equal the data's
            sel = z3.If(stop < self.length, stop, self.length)
            if not core.cur().branch(value.M == sel):
                raise TypeError("Can't broadcast (M,) -> (L,)")
            old = self.content
            self.content = lambda i, old=old, sel=sel, B=value.B: z3.If(i < sel, z3.Select(B, i), old(i))
            self.ops.append("write")
            return
        raise core.HarnessError(f"unmodelled dataset selection {key!r}")


class FakeGroup:
    def __init__(self):
        self.items = {}
        self.groups = {}

    def require_group(self, path):
        return self.groups.setdefault(path, FakeGroup())

    def __contains__(self, name):
        return name in self.items

    def __getitem__(self, name):
        return self.items[name]

    def create_dataset(self, name, shape=None, maxshape=None, dtype=None, data=None):
        if name in self.items:
            raise ValueError("Unable to create dataset (name already exists)")
        n = shape[0]
        n = n.t if isinstance(n, SymInt) else z3.IntVal(int(n))
        ds = FakeDataset(n, lambda i: z3.IntVal(0), resizable=maxshape is not None and tuple(maxshape) == (None,))
        self.items[name] = ds
        return ds


class FakeMem:
    def __init__(self):
        self.pos = None

    def seek(self, p):
        self.pos = p

    def read(self):
        if self.pos != 0:
            raise core.HarnessError("blob read without rewinding the buffer")
        return b"<symbolic>"


def harness(cfg):
    import aspire.utils as U

    present = cfg["present"]
    with_path = cfg.get("with_path", True)

    def h(ctx):
        M, L = z3.Int("M_new"), z3.Int("L_old")
        B, Old = z3.Array("B_new", I, I), z3.Array("B_old", I, I)
        LIM = 2**31
        ctx.add_assume(z3.And(M > 0, M <= LIM))
        blob = SymBlob(M, B)
        shim = types.SimpleNamespace(frombuffer=lambda data, dtype=None: blob)
        fn = types.FunctionType(U.dump_pickle_to_hdf.__code__, {**U.dump_pickle_to_hdf.__globals__, "np": shim}, "dump_pickle_to_hdf")
        fn.__defaults__ = U.dump_pickle_to_hdf.__defaults__
        fn.__kwdefaults__ = U.dump_pickle_to_hdf.__kwdefaults__
        root = FakeGroup()
        target = root.require_group("checkpoint") if with_path else root
        if present:
            ctx.add_assume(z3.And(L > 0, L <= LIM))
            target.items["state"] = FakeDataset(L, lambda i: z3.Select(Old, i), resizable=True)
        try:
            if with_path:
                fn(FakeMem(), root, path="checkpoint", dsetname="state")
            else:
                fn(FakeMem(), root, dsetname="state")
        except (core.PathCut, core.Infeasible, core.Inconclusive, core.HarnessError):
            raise
        except Exception as e:  # noqa: BLE001
            ctx.prove(False, "c12/blob_no_exception", detail={"exception": repr(e)})
            return
        ok = "state" in target.items
        ctx.prove(ok, "c12/blob_dataset_exists")
        if not ok:
            return
        ds = target.items["state"]
        ctx.prove(ds.length == M, "c12/blob_length")
        k = z3.Int("k_index")
        ctx.prove(z3.Implies(z3.And(k >= 0, k < M), ds.content(k) == z3.Select(B, k)), "c12/blob_content")
        ctx.prove(ds.resizable, "c12/blob_resizable")

    return h


def configs(tier):
    return [
        {"name": "blob-absent", "kind": "blob", "present": False, "flow": "blob"},
        {"name": "blob-present", "kind": "blob", "present": True, "flow": "blob"},
        {"name": "blob-present-root", "kind": "blob", "present": True, "with_path": False, "flow": "blob"},
    ]


def to_cex(fl):
    env = fl["env"]
    return {
        "cfg": fl["cfg"],
        "label": fl["label"],
        "detail": fl.get("detail"),
        "M": int(env.get("M_new") or 1),
        "L": int(env.get("L_old") or 1),
    }


def replay(cex):
    """Real h5py file: old blob of length L (if present), overwrite with a new
    blob of length M through the real dump_pickle_to_hdf, read back."""
    import os
    import tempfile
    from io import BytesIO

    import h5py
    import numpy as np

    import aspire.utils as U

    cfg = cex["cfg"]
    cands = [(cex["M"], cex["L"])]
    # the model's lengths may be astronomically large: also try scaled-down
    # pairs with the same ordering
    M, L = cex["M"], cex["L"]
    small = (7, 7) if M == L else ((5, 11) if M < L else (11, 5))
    cands.append(small)
    bad = []
    for M, L in cands:
        if max(M, L) > 10**7:
            continue
        tmp = tempfile.mkdtemp(prefix="aspire-verif-blob-")
        try:
            p = os.path.join(tmp, "f.h5")
            new = bytes((i * 7 + 3) % 251 + 1 for i in range(M))
            with h5py.File(p, "a") as f:
                if cfg["present"]:
                    old = BytesIO(bytes((i * 5 + 1) % 241 + 1 for i in range(L)))
                    U.dump_pickle_to_hdf(old, f, path="checkpoint" if cfg.get("with_path", True) else None, dsetname="state")
                try:
                    U.dump_pickle_to_hdf(BytesIO(new), f, path="checkpoint" if cfg.get("with_path", True) else None, dsetname="state")
                except Exception as e:  # noqa: BLE001
                    bad.append(f"old length {L}, new length {M}: raised {type(e).__name__}: {e}")
                    continue
            with h5py.File(p, "r") as f:
                g = f["checkpoint"] if cfg.get("with_path", True) else f
                got = g["state"][...].tobytes()
            if got != new:
                bad.append(f"old length {L}, new length {M}: file holds {len(got)} bytes, equal prefix {sum(1 for a, b in zip(got, new) if a == b)}")
        finally:
            import shutil

            shutil.rmtree(tmp, ignore_errors=True)
    return (len(bad) > 0, "; ".join(bad[:2]) if bad else "blob overwrite correct for these lengths")
