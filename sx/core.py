"""sx.core -- path explorer, term algebra and solver back end of engine SX.

The real aspire functions are executed on `sx.Array` objects whose cells are
z3 terms.  This module owns

* the exploration context (`Ctx`): decision vector, path condition,
  assumptions, definitional constraints, statistics;
* `branch` / `choose`: the decision points reached when the code under test
  calls `bool()` / `int()` / `max()` on symbolic values (DFS with
  re-execution, the CrossHair scheme);
* the exact algebra for `exp` / `log` over positive atoms (DESIGN 2.3);
* purification (Ackermann reduction) of the remaining uninterpreted
  applications, the finitely many lemma instances about them, and the
  `qfnra-nlsat` back end;
* a float evaluator for terms (`numeval`) used by translator validation and
  replay.
"""

from __future__ import annotations

import math
import os
import time
from fractions import Fraction

import z3

R = z3.RealSort()
B = z3.BoolSort()

EXP = z3.Function("EXP", R, R)
LOG = z3.Function("LOG", R, R)
SQRT = z3.Function("SQRT", R, R)
ERF = z3.Function("ERF", R, R)
ERFINV = z3.Function("ERFINV", R, R)
PI = z3.Real("PI")

_BUILTIN_UF = {"EXP", "LOG", "SQRT", "ERF", "ERFINV"}


class HarnessError(Exception):
    """The harness or the encoding is wrong; never a verdict."""


class PathCut(BaseException):
    """A path hit an exploration bound (counted, never a success)."""


class Infeasible(BaseException):
    """The current path became infeasible (e.g. an assumption contradicts it)."""


class Inconclusive(Exception):
    """A solver query came back `unknown`."""


class FrontierReached(BaseException):
    """Frontier mode: the path reached the split depth."""


# ---------------------------------------------------------------------------
# helpers on z3 terms


def rv(x) -> z3.ArithRef:
    """Exact rational value of a python number as a z3 Real."""
    if isinstance(x, bool):
        return z3.RealVal(1 if x else 0)
    if isinstance(x, int):
        return z3.RealVal(x)
    if isinstance(x, Fraction):
        return z3.RealVal(f"{x.numerator}/{x.denominator}")
    if isinstance(x, float):
        if x != x or x in (math.inf, -math.inf):
            raise HarnessError(f"non-finite float {x} entering the real sort")
        c = _KNOWN_FLOATS.get(x)
        if c is not None:
            return c
        f = Fraction(x)
        return z3.RealVal(f"{f.numerator}/{f.denominator}")
    raise HarnessError(f"cannot convert {type(x)} to a real term")


def _known_floats():
    t = {}
    for k in range(2, 65):
        t[math.log(k)] = LOG(z3.RealVal(k))
        t[-math.log(k)] = -LOG(z3.RealVal(k))
    t[math.sqrt(2)] = SQRT(z3.RealVal(2))
    t[1 / math.sqrt(2)] = 1 / SQRT(z3.RealVal(2))
    t[math.pi] = PI
    t[2 * math.pi] = 2 * PI
    t[math.log(2 * math.pi)] = LOG(2 * PI)
    t[0.5 * math.log(2 * math.pi)] = LOG(2 * PI) / 2
    t[math.sqrt(2 * math.pi)] = SQRT(2 * PI)
    t[math.sqrt(math.pi)] = SQRT(PI)
    return t


_KNOWN_FLOATS = _known_floats()


def is_num(t) -> bool:
    return z3.is_rational_value(t) or z3.is_int_value(t)


def frac(t) -> Fraction:
    if z3.is_int_value(t):
        return Fraction(t.as_long())
    return Fraction(t.numerator_as_long(), t.denominator_as_long())


def simp(t):
    return z3.simplify(t)


def nonzero(t) -> bool:
    """Is t provably non-zero on the current path?"""
    if is_num(t):
        return frac(t) != 0
    if _cur is None:
        return False
    key = ("nz", t.get_id(), len(_cur.path), len(_cur.assume), len(_cur.defs))
    memo = _cur.notes.setdefault("nz_memo", {})
    if key not in memo:
        r, _ = _cur.check([t == 0])
        memo[key] = r == "unsat"
    return memo[key]


def cancel_mul(a, b):
    """(p/q)*q -> p when q is provably non-zero (z3's simplifier never cancels
    symbolic denominators)."""
    for u, v in ((a, b), (b, a)):
        if z3.is_app(u) and u.decl().kind() == z3.Z3_OP_DIV and not is_num(v):
            p, q = u.children()
            if q.get_id() == v.get_id() and nonzero(v):
                return p
    return None


def cancel_div(a, b):
    """(p*q)/q -> p when q is provably non-zero."""
    if is_num(b) or not z3.is_app(a):
        return None
    if a.get_id() == b.get_id() and nonzero(b):
        return z3.RealVal(1)
    if a.decl().kind() == z3.Z3_OP_MUL:
        ch = a.children()
        for i, c in enumerate(ch):
            if c.get_id() == b.get_id() and nonzero(b):
                rest = ch[:i] + ch[i + 1 :]
                out = rest[0]
                for r in rest[1:]:
                    out = out * r
                return simp(out)
    return None


def ipow(base, k: int):
    """base**k for a python integer k by repeated multiplication."""
    if k == 0:
        return z3.RealVal(1)
    if k < 0:
        return 1 / ipow(base, -k)
    out = base
    for _ in range(k - 1):
        out = out * base
    return out


_K = z3
_ADD, _SUB, _MUL, _DIV, _UMINUS = (
    z3.Z3_OP_ADD,
    z3.Z3_OP_SUB,
    z3.Z3_OP_MUL,
    z3.Z3_OP_DIV,
    z3.Z3_OP_UMINUS,
)


def linform(t):
    """Linear normal form of a real term: (const, {key: (atom, coeff)}).

    Atoms are everything that is not +, -, numeral*, /numeral."""
    if is_num(t):
        return frac(t), {}
    if not z3.is_app(t):
        return Fraction(0), {t.get_id(): (t, Fraction(1))}
    k = t.decl().kind()
    if k == _ADD:
        c = Fraction(0)
        d: dict = {}
        for a in t.children():
            ca, da = linform(a)
            c += ca
            _merge(d, da, 1)
        return c, d
    if k == _SUB:
        ch = t.children()
        c, d = linform(ch[0])
        d = dict(d)
        for a in ch[1:]:
            ca, da = linform(a)
            c -= ca
            _merge(d, da, -1)
        return c, d
    if k == _UMINUS:
        c, d = linform(t.children()[0])
        return -c, {i: (a, -q) for i, (a, q) in d.items()}
    if k == _MUL:
        coef = Fraction(1)
        rest = []
        for a in t.children():
            ca, da = linform(a)
            if not da:
                coef *= ca
            else:
                rest.append((a, ca, da))
        if not rest:
            return coef, {}
        if len(rest) == 1:
            _, ca, da = rest[0]
            return coef * ca, {i: (a, q * coef) for i, (a, q) in da.items()}
        prod = rest[0][0]
        for a, _, _ in rest[1:]:
            prod = prod * a
        prod = simp(prod)
        if coef == 0:
            return Fraction(0), {}
        return Fraction(0), {prod.get_id(): (prod, coef)}
    if k == _DIV:
        num, den = t.children()
        cd, dd = linform(den)
        if not dd and cd != 0:
            cn, dn = linform(num)
            return cn / cd, {i: (a, q / cd) for i, (a, q) in dn.items()}
        return Fraction(0), {t.get_id(): (t, Fraction(1))}
    if k == z3.Z3_OP_TO_REAL:
        ch = t.children()[0]
        if z3.is_int_value(ch):
            return Fraction(ch.as_long()), {}
    return Fraction(0), {t.get_id(): (t, Fraction(1))}


def _merge(d, da, sign):
    for i, (a, q) in da.items():
        if i in d:
            nq = d[i][1] + sign * q
            if nq == 0:
                del d[i]
            else:
                d[i] = (a, nq)
        else:
            d[i] = (a, sign * q)


def is_uf_app(t, name=None):
    if not z3.is_app(t) or t.num_args() == 0:
        return False
    if t.decl().kind() != z3.Z3_OP_UNINTERPRETED:
        return False
    return name is None or t.decl().name() == name


def is_var(t):
    return (
        z3.is_app(t)
        and t.num_args() == 0
        and t.decl().kind() == z3.Z3_OP_UNINTERPRETED
    )


# ---------------------------------------------------------------------------
# context


class Stats:
    def __init__(self):
        self.paths = 0
        self.cut_paths = 0
        self.infeasible_paths = 0
        self.queries = 0
        self.solver_time = 0.0
        self.unknown = 0
        self.obligations = 0
        self.discharged = 0
        self.validated = 0
        self.by_label: dict = {}
        self.reached: dict = {}
        self.samples: list = []
        self.functions: set = set()

    def merge(self, o: "Stats"):
        for k in (
            "paths",
            "cut_paths",
            "infeasible_paths",
            "queries",
            "unknown",
            "obligations",
            "discharged",
            "validated",
        ):
            setattr(self, k, getattr(self, k) + getattr(o, k))
        self.solver_time += o.solver_time
        for k, v in o.by_label.items():
            a = self.by_label.setdefault(k, [0, 0])
            a[0] += v[0]
            a[1] += v[1]
        for k, v in o.reached.items():
            self.reached[k] = self.reached.get(k, 0) + v
        for s in o.samples:
            if len(self.samples) < 6:
                self.samples.append(s)
        self.functions |= o.functions


class Failure:
    """A refuted obligation with its model (before replay)."""

    def __init__(self, label, goal, model_env, path_len, detail=None):
        self.label = label
        self.goal = goal
        self.env = model_env
        self.path_len = path_len
        self.detail = detail or {}


class Ctx:
    def __init__(self, name="h", D=1, timeout_ms=60000, seed=0, mod_range=4, sort="R", fp_bits=64):
        self.name = name
        self.sort = sort
        self.fp_bits = fp_bits
        self.D = D
        self.timeout_ms = timeout_ms
        self.seed = seed
        self.mod_range = mod_range
        self.stats = Stats()
        self.failures: list[Failure] = []
        self.inconclusive: list = []
        self.stop_on_failure = False
        self.frontier_depth = None
        self.frontier: list = []
        self.prefix: list[int] = []
        self.exp_names: dict = {}  # persistent: E-constant name -> atom term
        self._vars_cache: dict = {}
        self._query_cache: dict = {}
        self._reset_run()

    # -- per-run state ---------------------------------------------------
    def _reset_run(self):
        self.decisions: list[int] = []
        self.alts: list[list[int]] = []
        self.path: list = []
        self.assume: list = []
        self.defs: list = []
        self.exp_atoms: dict = {}  # atom id -> (atom, E const)
        self.fresh_n = 0
        self.notes: dict = {}
        self.run_obligations = 0

    def fresh(self, base, sort=R):
        self.fresh_n += 1
        return z3.Const(f"{base}!{self.fresh_n}", sort)

    def var(self, name):
        return z3.Real(name)

    def add_assume(self, f):
        f = simp(f) if not isinstance(f, bool) else z3.BoolVal(f)
        if z3.is_true(f):
            return
        self.assume.append(f)

    def add_def(self, f):
        self.defs.append(f)

    # -- the exp atom registry --------------------------------------------
    def exp_atom(self, atom):
        i = atom.get_id()
        if i not in self.exp_atoms:
            e = z3.Real("E!" + _short(atom))
            self.exp_atoms[i] = (atom, e)
            self.exp_names[e.decl().name()] = atom
        return self.exp_atoms[i][1]

    # -- solving ----------------------------------------------------------
    def constraints(self):
        return self.assume + self.defs + self.path

    def _vars_of(self, f):
        """Names of the free constants of f (exp companions count as their
        atom's variables, so a companion and its variable are never split)."""
        i = f.get_id()
        hit = self._vars_cache.get(i)
        if hit is not None and hit[0].eq(f):
            return hit[1]
        out = set()
        for t in _walk([f]):
            if z3.is_app(t) and t.num_args() == 0 and t.decl().kind() == z3.Z3_OP_UNINTERPRETED:
                nm = t.decl().name()
                if nm == "PI" or nm.startswith("EXPC!"):
                    continue
                if nm.startswith("E!") and nm in self.exp_names:
                    out |= self._vars_of(self.exp_names[nm])
                    out.add(nm)
                else:
                    out.add(nm)
        self._vars_cache[i] = (f, out)
        return out

    def relevant(self, extra):
        """Cone of influence: the constraints that share variables
        (transitively) with `extra`.  The dropped constraints share no
        variable with the kept ones and are satisfiable on their own (the
        current path is feasible by construction), so the verdict is exact in
        both directions."""
        cons = self.constraints()
        if not extra or self.notes.get("no_slicing"):
            return cons
        seed = set()
        for f in extra:
            seed |= self._vars_of(f)
        if not seed:
            return cons
        vs = [self._vars_of(f) for f in cons]
        keep = [False] * len(cons)
        changed = True
        while changed:
            changed = False
            for k, v in enumerate(vs):
                if not keep[k] and (not v or (v & seed)):
                    keep[k] = True
                    if not v <= seed:
                        seed |= v
                        changed = True
        return [c for c, k in zip(cons, keep) if k]

    def check(self, extra=(), timeout_ms=None, links=False, feasibility=False):
        fs = self.relevant(list(extra)) + list(extra)
        key = (tuple(sorted(f.get_id() for f in fs)), links, feasibility)
        hit = self._query_cache.get(key)
        if hit is not None and hit[2] != "sat":
            self.stats.cache_hits = getattr(self.stats, "cache_hits", 0) + 1
            return hit[2], None
        t0 = time.time()
        res, model = solve(fs, self, timeout_ms or self.timeout_ms, links=links, feasibility=feasibility)
        self.stats.queries += 1
        if res == "unknown" and timeout_ms is None and not self.notes.get("no_retry"):
            # one more attempt with three times the budget and another solver seed: a
            # loaded machine must not turn a decidable query into an inconclusive run
            old_seed = self.seed
            self.seed = old_seed + 7919
            try:
                res, model = solve(fs, self, 3 * self.timeout_ms, links=links, feasibility=feasibility)
            finally:
                self.seed = old_seed
            self.stats.queries += 1
            self.stats.retried = getattr(self.stats, "retried", 0) + 1
        self.stats.solver_time += time.time() - t0
        if res == "unknown":
            self.stats.unknown += 1
        if res == "unsat":
            self._query_cache[key] = (fs, None, res)
        return res, model

    # -- decisions --------------------------------------------------------
    def branch(self, cond) -> bool:
        if isinstance(cond, bool):
            return cond
        cond = simp(cond)
        if z3.is_true(cond):
            return True
        if z3.is_false(cond):
            return False
        return self.choose([cond, z3.Not(cond)]) == 0

    def choose(self, conds) -> int:
        """Pick one of mutually exclusive, jointly exhaustive conditions.

        First feasible option on a fresh decision; the remaining feasible
        options are recorded for backtracking."""
        pos = len(self.decisions)
        if self.frontier_depth is not None and pos >= self.frontier_depth and pos >= len(self.prefix):
            raise FrontierReached()
        if pos < len(self.prefix):
            k = self.prefix[pos]
            self.decisions.append(k)
            self.alts.append([])
            self.path.append(conds[k])
            return k
        # a decision already taken on this path (re-executions of the same code
        # by resumed / crash runs): no query needed
        ids = {f.get_id() for f in self.path}
        for k, c in enumerate(conds):
            if simp(c).get_id() in ids or c.get_id() in ids:
                self.decisions.append(k)
                self.alts.append([])
                return k
        feas = []
        for k, c in enumerate(conds):
            c = simp(c)
            if z3.is_false(c):
                continue
            res, _ = self.check([c], feasibility=True)
            if res == "unknown":
                self.inconclusive.append(("feasibility", str(c)[:200]))
                raise Inconclusive(f"feasibility of a branch is unknown: {str(c)[:120]}")
            if res == "sat":
                feas.append(k)
        if not feas:
            raise Infeasible()
        k = feas[0]
        self.decisions.append(k)
        self.alts.append(feas[1:])
        self.path.append(conds[k])
        return k

    # -- obligations ------------------------------------------------------
    def reach(self, label):
        self.stats.reached[label] = self.stats.reached.get(label, 0) + 1

    def prove(self, goal, label, detail=None) -> bool:
        """Discharge `assumptions & path => goal`; record a Failure otherwise."""
        if self.frontier_depth is not None:
            return True
        st = self.stats
        st.obligations += 1
        self.run_obligations += 1
        bl = st.by_label.setdefault(label, [0, 0])
        bl[0] += 1
        self.reach(label)
        if isinstance(goal, bool):
            goal = z3.BoolVal(goal)
        goal = simp(goal)
        if z3.is_true(goal):
            st.discharged += 1
            bl[1] += 1
            return True
        res, model = self.check([z3.Not(goal)])
        if res == "unsat":
            st.discharged += 1
            bl[1] += 1
            if len(st.samples) < 6 and not z3.is_true(goal):
                st.samples.append(
                    {
                        "label": label,
                        "path_conditions": len(self.path),
                        "assumptions": len(self.assume) + len(self.defs),
                        "goal": _clip(str(goal), 300),
                    }
                )
            return True
        if res == "unknown":
            self.inconclusive.append((label, _clip(str(goal), 200)))
            return False
        env = self.real_point(model, [z3.Not(goal)])
        if env is None:
            # spurious model (exp companions inconsistent with their variables):
            # refine with the full set of order links and ask again
            res, model = self.check([z3.Not(goal)], links=True)
            if res == "unsat":
                st.discharged += 1
                bl[1] += 1
                return True
            if res == "unknown":
                self.inconclusive.append((label, _clip(str(goal), 200)))
                return False
            env = self.real_point(model, [z3.Not(goal)]) or model_env(model, self)
        if self.notes.get("last_model_is_candidate"):
            detail = dict(detail or {})
            detail["candidate_from_abstraction"] = True
            self.notes["last_model_is_candidate"] = False
        env = self._complete_env(env, [z3.Not(goal)])
        self.failures.append(
            Failure(label, goal, env, len(self.path), detail)
        )
        if self.stop_on_failure:
            raise PathCut()
        return False

    def _complete_env(self, env, extra):
        """A counterexample comes from the sliced query; the constraints dropped by
        the cone of influence (variable-disjoint from it, satisfiable on their own)
        still pin inputs the replay needs -- e.g. the branch condition `beta == 0`
        of a path whose outputs no longer mention beta.  Solve them separately and
        merge their values into the counterexample."""
        try:
            kept = {f.get_id() for f in self.relevant(list(extra))}
            dropped = [f for f in self.constraints() if f.get_id() not in kept]
            if not dropped or not isinstance(env, dict):
                return env
            res, model = solve(dropped, self, self.timeout_ms)
            if res != "sat":
                return env
            more = model_env(model, self)
            for k, v in more.items():
                if k == "__purified__":
                    env.setdefault(k, {})
                    for kk, vv in v.items():
                        env[k].setdefault(kk, vv)
                else:
                    env.setdefault(k, v)
        except (HarnessError, z3.Z3Exception):
            pass
        return env

    def real_point(self, model, extra):
        """Turn a model into a real point of the log-space problem: either
        x := D*ln(E) or E := exp(x/D); the candidate is accepted only if the
        constraints and `extra` evaluate to true in floats with the true
        exp/log.  None if neither candidate is a real point."""
        fs = self.constraints() + list(extra)
        a = model_env(model, self, prefer="E")
        if not self.exp_atoms:
            return a
        cands = [a, model_env(model, self, prefer="x")]
        undecided = None
        for env in cands:
            ok = True
            for f in fs:
                try:
                    v = numeval(f, env, self.notes.get("fns"), self.D, self.exp_names, approx=True)
                except HarnessError:
                    undecided = undecided or env
                    ok = None
                    break
                except (OverflowError, ValueError, ZeroDivisionError):
                    ok = False
                    break
                if v is not True:
                    ok = False
                    break
            if ok:
                return env
        return undecided

    def input_vars(self, extra_terms=()):
        out = {}
        for t in _walk(list(self.constraints()) + list(extra_terms)):
            if is_var(t) and t.sort() == R:
                nm = t.decl().name()
                if "!" in nm or nm == "PI":
                    continue
                out[nm] = t
        return out

    def witness(self, extra=(), bound=8, extra_terms=()):
        """A model of the current path with moderate values (for validation
        and for the reachability twin)."""
        vs = self.input_vars(extra_terms)
        small = [z3.And(v >= -bound, v <= bound) for v in vs.values()]
        small += [z3.And(e >= rv(Fraction(1, 10**4)), e <= 10**4) for (_, e) in self.exp_atoms.values()]
        # a witness must satisfy the WHOLE path condition (no slicing)
        old = self.notes.get("no_slicing")
        self.notes["no_slicing"] = True
        try:
            res, model = self.check(list(extra) + small)
            if res != "sat":
                res, model = self.check(list(extra))
        finally:
            self.notes["no_slicing"] = old
        if res != "sat":
            return None
        return model_env(model, self)

    def validate(self, sym: dict, runner, fns=None, tol=1e-6, label="validate"):
        """Translator validation on this path: concretise a model of the path
        condition, run `runner(env)` (the same real functions on plain NumPy)
        and compare with the symbolic outputs evaluated under the model."""
        if self.frontier_depth is not None:
            return False
        terms = []
        for v in sym.values():
            terms += list(v)
        env = self.witness(extra_terms=terms)
        if env is None:
            raise HarnessError(f"vacuous path at {label}")
        try:
            conc = runner(env)
        except (FloatingPointError, OverflowError, ZeroDivisionError):
            return False
        if conc is None:
            return False
        for name, ts in sym.items():
            want = conc[name]
            want = [float(x) for x in (want.ravel().tolist() if hasattr(want, "ravel") else (want if isinstance(want, (list, tuple)) else [want]))]
            if len(want) != len(ts):
                raise HarnessError(f"{label}: output {name} has {len(want)} cells on NumPy, {len(ts)} symbolically")
            for k, (t, w) in enumerate(zip(ts, want)):
                g = numeval(t, env, fns, self.D, self.exp_names)
                if isinstance(g, bool):
                    g = float(g)
                if not (math.isfinite(g) and math.isfinite(w)):
                    continue
                if abs(g - w) > tol * max(1.0, abs(g), abs(w)):
                    raise HarnessError(
                        f"{label}: translator validation failed for {name}[{k}]: symbolic {g!r} vs NumPy {w!r} at {dict((a, b) for a, b in env.items() if a != '__purified__')}"
                    )
        self.stats.validated += 1
        return True

    def sat_witness(self, label="reach"):
        """Reachability twin: the path itself must be satisfiable."""
        res, model = self.check([])
        if res != "sat":
            raise HarnessError(f"vacuous path at {label}: {res}")
        return model_env(model, self)


def _short(t):
    s = t.sexpr().replace("\n", " ")
    s = " ".join(s.split())
    if len(s) > 60:
        s = s[:40] + "#" + str(t.get_id())
    return s


def _clip(s, n):
    s = " ".join(s.split())
    return s if len(s) <= n else s[: n - 3] + "..."


_cur: Ctx | None = None


def cur() -> Ctx:
    if _cur is None:
        raise HarnessError("no exploration context")
    return _cur


def set_cur(c):
    global _cur
    _cur = c


# ---------------------------------------------------------------------------
# exploration


def explore(harness, ctx: Ctx, max_paths=100000, deadline=None, start=None):
    """DFS over decision vectors with re-execution of `harness(ctx)`.

    `start`: explore only the subtree under this decision prefix.  With
    ctx.frontier_depth set, paths are cut at that depth and their prefixes are
    collected in ctx.frontier (no obligations are posed: `prove` is disabled)
    so that the subtrees can be explored by parallel workers."""
    stack = [list(start) if start else []]
    set_cur(ctx)
    import sx as _sx

    old_ops = _sx.OPS
    if ctx.sort == "F":
        from . import fp as _fp

        _sx.set_ops(_fp.FOps(ctx.fp_bits))
    else:
        _sx.set_ops(_sx._ROps())
    try:
        while stack:
            if ctx.stats.paths + ctx.stats.cut_paths >= max_paths:
                raise HarnessError("path budget exhausted")
            if deadline is not None and time.time() > deadline:
                raise HarnessError("time budget exhausted")
            prefix = stack.pop()
            ctx.prefix = prefix
            ctx._reset_run()
            try:
                harness(ctx)
                if ctx.frontier_depth is not None:
                    ctx.frontier.append(list(ctx.decisions))
                else:
                    ctx.stats.paths += 1
            except FrontierReached:
                ctx.frontier.append(list(ctx.decisions))
            except PathCut:
                ctx.stats.cut_paths += 1
            except Infeasible:
                ctx.stats.infeasible_paths += 1
            n0 = len(prefix)
            for i in range(len(ctx.decisions) - 1, n0 - 1, -1):
                for k in ctx.alts[i]:
                    stack.append(ctx.decisions[:i] + [k])
            if ctx.failures and ctx.stop_on_failure:
                break
    finally:
        set_cur(None)
        _sx.set_ops(old_ops)
    return ctx


# ---------------------------------------------------------------------------
# exp / log algebra


def sx_exp(t):
    """exp of a real term, eagerly normalised (DESIGN 2.3)."""
    c = cur()
    t = simp(t)
    const, d = linform(t)
    out = None
    opaque = None

    def mul(a, b):
        return b if a is None else a * b

    for _, (atom, q) in sorted(d.items(), key=lambda kv: kv[0]):
        if is_uf_app(atom, "LOG"):
            s = atom.arg(0)
            if q.denominator == 1:
                out = mul(out, ipow(s, int(q)))
                continue
            if q.denominator == 2:
                out = mul(out, ipow(SQRT(s), int(q * 2)))
                continue
        elif _is_log_atom(atom) and (q * c.D).denominator == 1:
            out = mul(out, ipow(c.exp_atom(atom), int(q * c.D)))
            continue
        term = atom * rv(q) if q != 1 else atom
        out = mul(out, EXP(simp(term)))
    if const != 0:
        out = mul(out, _exp_const(const))
    if out is None:
        return z3.RealVal(1)
    return simp(out)


def _is_log_atom(atom):
    """Atoms that get a positive companion E = exp(atom / D): variables and
    applications of user functions (not the built-in special functions, not
    arithmetic)."""
    if is_var(atom):
        return atom.sort() == R and not atom.decl().name().startswith("E!")
    if is_uf_app(atom) and atom.decl().name() not in _BUILTIN_UF:
        return True
    return False


_EXPC: dict = {}


def _exp_const(q: Fraction):
    """exp of a rational constant: an enclosed positive constant."""
    if q == 0:
        return z3.RealVal(1)
    key = q
    if key not in _EXPC:
        _EXPC[key] = z3.Real(f"EXPC!{q.numerator}_{q.denominator}")
    e = _EXPC[key]
    cur().notes.setdefault("expc", {})[key] = e
    return e


def expc_axioms(consts):
    out = []
    for q, e in consts.items():
        v = math.exp(float(q))
        lo = Fraction(v) * (1 - Fraction(1, 10**12))
        hi = Fraction(v) * (1 + Fraction(1, 10**12))
        out.append(z3.And(e >= rv(lo), e <= rv(hi)))
    return out


def sx_log(t):
    t = simp(t)
    if is_num(t):
        f = frac(t)
        if f == 1:
            return z3.RealVal(0)
        if f <= 0:
            raise HarnessError("log of a non-positive constant in the real sort")
        if f.denominator == 1:
            return LOG(z3.RealVal(f.numerator))
        if f.numerator == 1:
            return -LOG(z3.RealVal(f.denominator))
        return LOG(z3.RealVal(f.numerator)) - LOG(z3.RealVal(f.denominator))
    return LOG(t)


def sx_sqrt(t):
    t = simp(t)
    if is_num(t):
        f = frac(t)
        n, d = math.isqrt(f.numerator), math.isqrt(f.denominator)
        if f >= 0 and n * n == f.numerator and d * d == f.denominator:
            return rv(Fraction(n, d))
    base = None
    if z3.is_app(t):
        k = t.decl().kind()
        ch = t.children()
        if k == _MUL and len(ch) == 2 and ch[0].get_id() == ch[1].get_id():
            base = ch[0]
        elif k == z3.Z3_OP_POWER and is_num(ch[1]) and frac(ch[1]) == 2:
            base = ch[0]
    if base is not None and _cur is not None:
        r1, _ = _cur.check([base < 0])
        if r1 == "unsat":
            return base
        r2, _ = _cur.check([base > 0])
        if r2 == "unsat":
            return simp(-base)
    return SQRT(t)


# ---------------------------------------------------------------------------
# purification + lemmas + back end


def _walk(ts):
    """All distinct sub-terms of the given terms (post-order)."""
    seen = {}
    order = []
    stack = [(t, False) for t in ts]
    while stack:
        t, done = stack.pop()
        i = t.get_id()
        if done:
            if i not in seen:
                seen[i] = t
                order.append(t)
            continue
        if i in seen:
            continue
        stack.append((t, True))
        if z3.is_app(t):
            for ch in t.children():
                if ch.get_id() not in seen:
                    stack.append((ch, False))
    return order


_CMP = {z3.Z3_OP_LE, z3.Z3_OP_GE, z3.Z3_OP_LT, z3.Z3_OP_GT, z3.Z3_OP_EQ}


def lemma_instances(fs, ctx: Ctx, links=False):
    """Finitely many true facts about the special functions, instantiated on
    the applications that occur (DESIGN 2.3).  Returns new formulas; iterates
    to a fixed point because lemmas may mention new applications."""
    lemmas = []
    done_apps: set = set()
    done_cmp: set = set()
    done_pairs: set = set()
    expc_done: set = set()
    work = list(fs)
    rounds = 0
    while work and rounds < 4:
        rounds += 1
        new = []
        subs = _walk(work)
        apps: dict = {}
        for t in subs:
            if is_uf_app(t):
                apps.setdefault(t.decl().name(), {})[t.get_id()] = t
        for t in subs:
            # enclosed constants
            if is_var(t) and t.decl().name().startswith("EXPC!") and t.get_id() not in expc_done:
                expc_done.add(t.get_id())
                nm = t.decl().name()[5:]
                a, b = nm.split("_")
                new += expc_axioms({Fraction(int(a), int(b)): t})
            if is_var(t) and t.decl().name() == "PI" and t.get_id() not in expc_done:
                expc_done.add(t.get_id())
                new.append(z3.And(t > rv(Fraction(314159265, 10**8)), t < rv(Fraction(314159266, 10**8))))
            if is_var(t) and t.decl().name().startswith("E!") and t.get_id() not in expc_done:
                expc_done.add(t.get_id())
                new.append(t > 0)
        # per-application facts
        for name, d in apps.items():
            for i, t in d.items():
                if i in done_apps:
                    continue
                done_apps.add(i)
                a = t.arg(0) if t.num_args() == 1 else None
                if name == "EXP":
                    new.append(t > 0)
                    new.append(z3.Implies(a == 0, t == 1))
                    new.append((a > 0) == (t > 1))
                elif name == "LOG":
                    new.append(z3.Implies(a > 0, (a > 1) == (t > 0)))
                    new.append(z3.Implies(a == 1, t == 0))
                elif name == "SQRT":
                    new.append(t >= 0)
                    new.append(z3.Implies(a >= 0, t * t == a))
                elif name == "ERF":
                    new.append(z3.And(t > -1, t < 1))
                    new.append((a > 0) == (t > 0))
                    new.append((a == 0) == (t == 0))
                elif name == "ERFINV":
                    new.append(
                        z3.Implies(z3.And(a > -1, a < 1), z3.And((a > 0) == (t > 0), (a == 0) == (t == 0)))
                    )
        # pairwise: congruence / strict monotonicity, inverse pairs
        for name, d in apps.items():
            ts = list(d.values())
            for x in range(len(ts)):
                for y in range(x + 1, len(ts)):
                    p, q = ts[x], ts[y]
                    key = (p.get_id(), q.get_id())
                    if key in done_pairs:
                        continue
                    done_pairs.add(key)
                    if name in ("EXP", "ERF"):
                        new.append((p.arg(0) < q.arg(0)) == (p < q))
                        new.append((p.arg(0) == q.arg(0)) == (p == q))
                    if name == "EXP":
                        new.append(z3.Implies(p.arg(0) == -q.arg(0), p * q == 1))
                    elif name in ("LOG",):
                        new.append(
                            z3.Implies(
                                z3.And(p.arg(0) > 0, q.arg(0) > 0),
                                z3.And((p.arg(0) < q.arg(0)) == (p < q), (p.arg(0) == q.arg(0)) == (p == q)),
                            )
                        )
                    elif name == "SQRT":
                        new.append(
                            z3.Implies(
                                z3.And(p.arg(0) >= 0, q.arg(0) >= 0),
                                z3.And((p.arg(0) < q.arg(0)) == (p < q), (p.arg(0) == q.arg(0)) == (p == q)),
                            )
                        )
                    elif name == "ERFINV":
                        inr = z3.And(p.arg(0) > -1, p.arg(0) < 1, q.arg(0) > -1, q.arg(0) < 1)
                        new.append(
                            z3.Implies(
                                inr,
                                z3.And((p.arg(0) < q.arg(0)) == (p < q), (p.arg(0) == q.arg(0)) == (p == q)),
                            )
                        )
                        new.append(z3.Implies(z3.And(inr, p.arg(0) == -q.arg(0)), p == -q))
                    else:
                        eqs = [p.arg(k) == q.arg(k) for k in range(p.num_args())]
                        new.append(z3.Implies(z3.And(*eqs), p == q))
                    if name == "ERF":
                        new.append(z3.Implies(p.arg(0) == -q.arg(0), p == -q))
        for f_name, g_name in (("ERF", "ERFINV"), ("EXP", "LOG")):
            for p in apps.get(f_name, {}).values():
                for q in apps.get(g_name, {}).values():
                    key = (p.get_id(), q.get_id())
                    if key in done_pairs:
                        continue
                    done_pairs.add(key)
                    if g_name == "ERFINV":
                        dom = z3.And(q.arg(0) > -1, q.arg(0) < 1)
                    else:
                        dom = q.arg(0) > 0
                    new.append(z3.Implies(z3.And(dom, p.arg(0) == q), p == q.arg(0)))
                    new.append(z3.Implies(z3.And(dom, q.arg(0) == p), q == p.arg(0)))
        # E-atom companions of user-function atoms: order-consistent
        eat = [(a, e) for (a, e) in ctx.exp_atoms.values()]
        for x in range(len(eat)):
            for y in range(x + 1, len(eat)):
                a1, e1 = eat[x]
                a2, e2 = eat[y]
                if is_var(a1) and is_var(a2) and not links:
                    continue
                key = ("E", a1.get_id(), a2.get_id())
                if key in done_pairs:
                    continue
                done_pairs.add(key)
                new.append((a1 < a2) == (e1 < e2))
                new.append((a1 == a2) == (e1 == e2))
        # comparisons between log-space linear forms -> monomial comparisons
        # (only for the comparisons of the query itself, not for those the
        # lemmas introduce)
        if ctx.exp_atoms and rounds == 1:
            for t in subs:
                if not z3.is_app(t) or t.decl().kind() not in _CMP:
                    continue
                if t.get_id() in done_cmp:
                    continue
                lhs, rhs = t.children()
                if lhs.sort() != R:
                    continue
                done_cmp.add(t.get_id())
                tr = _translate_cmp(t, lhs, rhs, ctx)
                if tr is not None:
                    new.append(t == tr)
        lemmas += new
        work = new
    return lemmas


def _translate_cmp(t, lhs, rhs, ctx):
    const, d = linform(simp(lhs - rhs))
    if not d:
        return None
    pos = None
    neg = None
    for _, (atom, q) in d.items():
        if is_uf_app(atom, "LOG") and q.denominator == 1:
            base = atom.arg(0)
            k = int(q)
        else:
            ent = ctx.exp_atoms.get(atom.get_id())
            if ent is None or (q * ctx.D).denominator != 1:
                return None
            base = ent[1]
            k = int(q * ctx.D)
        if k > 0:
            pos = ipow(base, k) if pos is None else pos * ipow(base, k)
        else:
            neg = ipow(base, -k) if neg is None else neg * ipow(base, -k)
    if const != 0:
        return None
    one = z3.RealVal(1)
    pos = one if pos is None else pos
    neg = one if neg is None else neg
    k = t.decl().kind()
    if k == z3.Z3_OP_LE:
        return pos <= neg
    if k == z3.Z3_OP_GE:
        return pos >= neg
    if k == z3.Z3_OP_LT:
        return pos < neg
    if k == z3.Z3_OP_GT:
        return pos > neg
    return pos == neg


def purify(fs):
    """Replace applications of uninterpreted functions by fresh constants
    (bottom-up, congruence is supplied by `lemma_instances`)."""
    table: dict = {}
    cache: dict = {}

    def go(t):
        i = t.get_id()
        if i in cache:
            return cache[i]
        if not z3.is_app(t) or t.num_args() == 0:
            cache[i] = t
            return t
        ch = [go(c) for c in t.children()]
        if t.decl().kind() == z3.Z3_OP_UNINTERPRETED:
            key = (t.decl().name(), tuple(c.get_id() for c in ch))
            if key not in table:
                table[key] = (z3.Real(f"P!{t.decl().name()}!{len(table)}"), t)
            r = table[key][0]
        else:
            changed = any(c.get_id() != o.get_id() for c, o in zip(ch, t.children()))
            r = t.decl()(*ch) if changed else t
        cache[i] = r
        return r

    return [go(f) for f in fs], table


def _has_int(fs):
    for t in _walk(fs):
        if z3.is_app(t) and t.num_args() == 0 and t.sort() == z3.IntSort() and not z3.is_int_value(t):
            return True
    return False


def _is_nonlinear(fs):
    for t in _walk(fs):
        if not z3.is_app(t):
            continue
        k = t.decl().kind()
        if k == _MUL:
            if sum(0 if is_num(c) else 1 for c in t.children()) >= 2:
                return True
        elif k == _DIV:
            if not is_num(t.children()[1]):
                return True
        elif k == z3.Z3_OP_POWER:
            return True
    return False


def solve(fs, ctx: Ctx, timeout_ms, links=False, feasibility=False):
    fs = [f for f in fs if not z3.is_true(f)]
    if ctx.sort == "F":
        from . import fp as _fp

        n_abs, res = 0, None
        if not ctx.notes.get("fp_exact_only"):
            afs, axioms, n_abs = _fp.fp_abstract(fs)
            if n_abs:
                s = z3.Solver()
                s.set("timeout", int(timeout_ms))
                s.set("random_seed", int(ctx.seed))
                s.add(*afs)
                s.add(*axioms)
                res = str(s.check())
                ctx.stats.fp_abstract_queries = getattr(ctx.stats, "fp_abstract_queries", 0) + 1
                if res == "unsat":
                    ctx.stats.fp_abstract_unsat = getattr(ctx.stats, "fp_abstract_unsat", 0) + 1
                    return "unsat", None
                if feasibility:
                    # over-approximate feasibility: exploring an infeasible path
                    # only adds vacuously true obligations
                    return "sat", ((s.model(), {}) if res == "sat" else None)
        abstract_model = None
        if not ctx.notes.get("fp_exact_only") and n_abs and res == "sat":
            abstract_model = s.model()
        s = z3.Solver()
        s.set("timeout", int(min(timeout_ms, ctx.notes.get("fp_exact_timeout_ms", timeout_ms))))
        s.set("random_seed", int(ctx.seed))
        s.add(*fs)
        res = str(s.check())
        if res == "unknown" and abstract_model is not None:
            # the bit-precise query did not finish: hand the abstraction's model
            # out as a *candidate*; only a replay on the real code can confirm it
            ctx.notes["last_model_is_candidate"] = True
            return "sat", (abstract_model, {})
        ctx.notes["last_model_is_candidate"] = False
        return res, ((s.model(), {}) if res == "sat" else None)
    lem = lemma_instances(fs, ctx, links=links)
    pfs, table = purify(fs + lem)
    nonlin = _is_nonlinear(pfs)
    ints = _has_int(pfs)
    order = []
    if nonlin and not ints:
        order = ["nlsat", "default"]
    else:
        order = ["default", "nlsat"] if not ints else ["default"]
    res = "unknown"
    model = None
    budget = timeout_ms
    for which in order:
        if which == "nlsat":
            s = z3.Tactic("qfnra-nlsat").solver()
        else:
            s = z3.Solver()
        s.set("timeout", int(budget))
        s.set("seed" if which == "nlsat" else "random_seed", int(ctx.seed))
        s.add(*pfs)
        r = s.check()
        res = str(r)
        if res == "sat":
            model = (s.model(), table)
            break
        if res == "unsat":
            break
    if os.environ.get("SX_DUMP") and res == "unknown":
        with open(os.environ["SX_DUMP"], "w") as f:
            f.write(s.to_smt2())
    return res, model


# ---------------------------------------------------------------------------
# models -> environments; float evaluation of terms


def model_env(model, ctx: Ctx, prefer="E"):
    """Concrete environment {variable name: float} from a model.  Variables
    that have an exp companion get D*ln(E) (prefer="E"), or the companion gets
    exp(x/D) (prefer="x"), so that the environment is a real point of the
    log-space problem."""
    m, table = model
    env = {}
    for d in m.decls():
        if d.arity() != 0:
            continue
        v = m[d]
        env[d.name()] = _val(v)
    for _, (atom, e) in ctx.exp_atoms.items():
        if not is_var(atom):
            continue
        if prefer == "E":
            x = _val(m.eval(e, model_completion=True))
            if x is not None and x > 0:
                env[atom.decl().name()] = ctx.D * math.log(x)
        else:
            x = _val(m.eval(atom, model_completion=True))
            if x is not None:
                try:
                    env[e.decl().name()] = math.exp(x / ctx.D)
                    env[atom.decl().name()] = x
                except OverflowError:
                    pass
    env["__purified__"] = {
        str(orig): _val(m.eval(c, model_completion=True)) for (c, orig) in table.values()
    }
    if prefer == "E":
        # user-function applications with an exp companion: value := D ln E, so
        # that the environment is a real point of the log-space problem
        for _, (atom, e) in ctx.exp_atoms.items():
            if is_var(atom):
                continue
            x = _val(m.eval(e, model_completion=True))
            if x is not None and x > 0:
                env["__purified__"][str(atom)] = ctx.D * math.log(x)
    return env


def _val(v):
    if v is None:
        return None
    if z3.is_fp_value(v):
        from .fp import fp_value

        return fp_value(v)
    if z3.is_bv_value(v):
        return v.as_long()
    if z3.is_rational_value(v) or z3.is_int_value(v):
        f = frac(v)
        try:
            return float(f)
        except OverflowError:
            return math.inf if f > 0 else -math.inf
    if z3.is_algebraic_value(v):
        return float(v.approx(20).as_fraction())
    if z3.is_true(v):
        return True
    if z3.is_false(v):
        return False
    return None


def numeval(t, env, fns=None, D=1, exp_names=None, approx=False):
    """Evaluate a term in floats.  env: variable name -> float.  E!-constants
    are evaluated as exp(atom/D) with the atom looked up in `exp_names`;
    special functions by `math`; user functions by `fns[name](*args)`."""
    fns = fns or {}
    exp_names = exp_names or {}
    cache: dict = {}

    def go(t):
        i = t.get_id()
        if i in cache:
            return cache[i]
        r = go1(t)
        cache[i] = r
        return r

    def go1(t):
        if is_num(t):
            return float(frac(t))
        if z3.is_true(t):
            return True
        if z3.is_false(t):
            return False
        if z3.is_algebraic_value(t):
            return float(t.approx(20).as_fraction())
        k = t.decl().kind()
        ch = t.children()
        if k == z3.Z3_OP_UNINTERPRETED:
            name = t.decl().name()
            if not ch:
                if name in env and env[name] is not None:
                    return env[name]
                if name == "PI":
                    return math.pi
                if name.startswith("EXPC!"):
                    a, b = name[5:].split("_")
                    return math.exp(int(a) / int(b))
                if name.startswith("E!"):
                    if name in exp_names:
                        return math.exp(go(exp_names[name]) / D)
                    raise HarnessError(f"free exp atom {name} in numeval")
                return 0.0
            args = [go(c) for c in ch]
            if name == "EXP":
                return math.exp(args[0])
            if name == "LOG":
                return math.log(args[0]) if args[0] > 0 else (-math.inf if args[0] == 0 else math.nan)
            if name == "SQRT":
                return math.sqrt(args[0]) if args[0] >= 0 else math.nan
            if name == "ERF":
                return math.erf(args[0])
            if name == "ERFINV":
                from scipy.special import erfinv

                return float(erfinv(args[0]))
            if name in fns:
                return fns[name](*args)
            raise HarnessError(f"no interpretation for {name}")
        a = [go(c) for c in ch]
        if k == _ADD:
            return sum(a)
        if k == _SUB:
            r = a[0]
            for x in a[1:]:
                r -= x
            return r
        if k == _UMINUS:
            return -a[0]
        if k == _MUL:
            r = 1.0
            for x in a:
                r *= x
            return r
        if k == _DIV:
            return a[0] / a[1] if a[1] != 0 else math.nan
        if k == z3.Z3_OP_POWER:
            return a[0] ** a[1]
        if k == z3.Z3_OP_ITE:
            return a[1] if a[0] else a[2]
        if approx and k in _CMP and not isinstance(a[0], bool):
            tol = 1e-9 * max(1.0, abs(a[0]), abs(a[1]))
            if k == z3.Z3_OP_LE:
                return a[0] <= a[1] + tol
            if k == z3.Z3_OP_GE:
                return a[0] >= a[1] - tol
            if k == z3.Z3_OP_LT:
                return a[0] < a[1] + tol
            if k == z3.Z3_OP_GT:
                return a[0] > a[1] - tol
            return abs(a[0] - a[1]) <= tol
        if k == z3.Z3_OP_LE:
            return a[0] <= a[1]
        if k == z3.Z3_OP_GE:
            return a[0] >= a[1]
        if k == z3.Z3_OP_LT:
            return a[0] < a[1]
        if k == z3.Z3_OP_GT:
            return a[0] > a[1]
        if k == z3.Z3_OP_EQ:
            return a[0] == a[1]
        if k == z3.Z3_OP_DISTINCT:
            return len(set(a)) == len(a)
        if k == z3.Z3_OP_AND:
            return all(a)
        if k == z3.Z3_OP_OR:
            return any(a)
        if k == z3.Z3_OP_NOT:
            return not a[0]
        if k == z3.Z3_OP_IMPLIES:
            return (not a[0]) or a[1]
        if k == z3.Z3_OP_TO_REAL:
            return float(a[0])
        raise HarnessError(f"numeval: unsupported operator {t.decl()}")

    return go(t)
