"""Symbolic differentiation of SX terms (the Jacobian oracle of C03/C04).

The forward map of a transform comes out of the symbolic execution of the
real code as a term y(x); `d(y, x)` differentiates that term, so the Jacobian
specification is derived from the code's own map rather than copied from the
code's Jacobian formula."""

from __future__ import annotations

import z3

from . import core
from .core import HarnessError, is_num, is_var, simp


def d(t, v, ctx=None):
    """Partial derivative of real term t with respect to variable v."""
    ctx = ctx or core.cur()
    cache: dict = {}
    vid = v.get_id()
    zero = z3.RealVal(0)
    one = z3.RealVal(1)

    def go(t):
        i = t.get_id()
        if i in cache:
            return cache[i]
        r = simp(go1(t))
        cache[i] = r
        return r

    def go1(t):
        if is_num(t):
            return zero
        if t.get_id() == vid:
            return one
        if is_var(t):
            nm = t.decl().name()
            if nm.startswith("E!"):
                atom = ctx.exp_names.get(nm)
                if atom is None:
                    raise HarnessError(f"diff: unknown exp atom {nm}")
                return t * go(atom) / ctx.D
            return zero
        k = t.decl().kind()
        ch = t.children()
        if k == z3.Z3_OP_ADD:
            return z3.Sum([go(c) for c in ch])
        if k == z3.Z3_OP_SUB:
            r = go(ch[0])
            for c in ch[1:]:
                r = r - go(c)
            return r
        if k == z3.Z3_OP_UMINUS:
            return -go(ch[0])
        if k == z3.Z3_OP_MUL:
            terms = []
            for j, c in enumerate(ch):
                dc = go(c)
                if z3.is_rational_value(dc) and core.frac(dc) == 0:
                    continue
                p = dc
                for m, o in enumerate(ch):
                    if m != j:
                        p = p * o
                terms.append(p)
            return z3.Sum(terms) if terms else zero
        if k == z3.Z3_OP_DIV:
            a, b = ch
            da, db = go(a), go(b)
            if z3.is_rational_value(db) and core.frac(db) == 0:
                return da / b
            return (da * b - a * db) / (b * b)
        if k == z3.Z3_OP_POWER:
            a, n = ch
            if not is_num(n):
                raise HarnessError("diff: symbolic exponent")
            return n * core.ipow(a, int(core.frac(n)) - 1) * go(a)
        if k == z3.Z3_OP_ITE:
            return z3.If(ch[0], go(ch[1]), go(ch[2]))
        if k == z3.Z3_OP_UNINTERPRETED:
            name = t.decl().name()
            a = ch[0]
            da = go(a)
            if z3.is_rational_value(da) and core.frac(da) == 0 and len(ch) == 1:
                return zero
            if name == "LOG":
                return da / a
            if name == "EXP":
                return da * t
            if name == "SQRT":
                return da / (2 * t)
            if name == "ERF":
                return da * 2 / core.SQRT(core.PI) * core.sx_exp(-(a * a))
            if name == "ERFINV":
                return da * core.SQRT(core.PI) / 2 * core.sx_exp(t * t)
            raise HarnessError(f"diff: no rule for {name}")
        raise HarnessError(f"diff: unsupported operator {t.decl()}")

    return go(t)


def det(M):
    n = len(M)
    if n == 1:
        return M[0][0]
    if n == 2:
        return simp(M[0][0] * M[1][1] - M[0][1] * M[1][0])
    out = None
    for j in range(n):
        minor = [[M[r][c] for c in range(n) if c != j] for r in range(1, n)]
        term = M[0][j] * det(minor)
        if j % 2:
            term = -term
        out = term if out is None else out + term
    return simp(out)


def jacobian(ys, xs, ctx=None):
    return [[d(y, x, ctx) for x in xs] for y in ys]
