"""sx.fp -- the floating-point element sort of engine SX (DESIGN 2.1, sort F).

Cells are z3 FloatingPoint terms (Float64 by default, Float32 on request),
round-nearest-even, every operation in the order the code performs it.
exp/log are uninterpreted FP->FP functions constrained by range / special
value / monotonicity axioms instantiated on the applications that occur."""

from __future__ import annotations

import builtins
import math

import numpy as _np
import z3

from . import core

RM = z3.RNE()


class FOps:
    name = "F"

    def __init__(self, bits=64):
        self.sort = z3.Float64() if bits == 64 else z3.Float32()
        self.bits = bits
        self.FEXP = z3.Function(f"FEXP{bits}", self.sort, self.sort)
        self.FLOG = z3.Function(f"FLOG{bits}", self.sort, self.sort)
        # thresholds of exp in this width
        if bits == 64:
            self.exp_hi, self.exp_lo, self.log_max = 709.782712893384, -745.1332191019412, 745.2
        else:
            self.exp_hi, self.exp_lo, self.log_max = 88.72283935546875, -103.97207641601562, 104.0

    # -- constants / variables ------------------------------------------------
    def const(self, x):
        if isinstance(x, (builtins.bool, _np.bool_)):
            x = 1.0 if x else 0.0
        return z3.FPVal(float(x), self.sort)

    def var(self, name):
        return z3.FP(name, self.sort)

    def zero(self):
        return z3.FPVal(0.0, self.sort)

    def is_float_term(self, t):
        return isinstance(t, z3.ExprRef) and z3.is_fp(t)

    # -- arithmetic -------------------------------------------------------------
    def add(self, a, b):
        return z3.simplify(z3.fpAdd(RM, a, b))

    def sub(self, a, b):
        return z3.simplify(z3.fpSub(RM, a, b))

    def mul(self, a, b):
        return z3.simplify(z3.fpMul(RM, a, b))

    def div(self, a, b):
        return z3.simplify(z3.fpDiv(RM, a, b))

    def neg(self, a):
        return z3.simplify(z3.fpNeg(a))

    def abs(self, a):
        return z3.simplify(z3.fpAbs(a))

    def sqrt(self, a):
        return z3.simplify(z3.fpSqrt(RM, a))

    def lt(self, a, b):
        return z3.simplify(z3.fpLT(a, b))

    def le(self, a, b):
        return z3.simplify(z3.fpLEQ(a, b))

    def gt(self, a, b):
        return z3.simplify(z3.fpGT(a, b))

    def ge(self, a, b):
        return z3.simplify(z3.fpGEQ(a, b))

    def eq(self, a, b):
        return z3.simplify(z3.fpEQ(a, b))

    def ne(self, a, b):
        return z3.simplify(z3.Not(z3.fpEQ(a, b)))

    def isnan(self, a):
        return z3.simplify(z3.fpIsNaN(a))

    def isinf(self, a):
        return z3.simplify(z3.fpIsInf(a))

    def isfinite(self, a):
        return z3.simplify(z3.Not(z3.Or(z3.fpIsNaN(a), z3.fpIsInf(a))))

    def ite(self, c, a, b):
        return z3.simplify(z3.If(c, a, b))

    def from_bool(self, b):
        if isinstance(b, (builtins.bool, _np.bool_)):
            return self.const(1.0 if b else 0.0)
        return z3.simplify(z3.If(b, self.const(1.0), self.const(0.0)))

    def from_int(self, i):
        if isinstance(i, z3.ExprRef):
            if z3.is_fp(i):
                return i
            raise core.HarnessError("symbolic integer converted to FP")
        return self.const(float(int(i)))

    def mod(self, a, w):
        return z3.simplify(z3.fpRem(a, w))

    def cast(self, cells, src, dst):
        return cells

    # -- exp / log --------------------------------------------------------------
    def _apps(self, key):
        return core.cur().notes.setdefault(key, [])

    def exp(self, a):
        c = core.cur()
        r = self.FEXP(a)
        done = c.notes.setdefault("fp_exp_done", set())
        if r.get_id() in done:
            return r
        done.add(r.get_id())
        S = self.sort
        ax = [
            z3.fpIsNaN(a) == z3.fpIsNaN(r),
            z3.Implies(z3.fpGT(a, z3.FPVal(self.exp_hi, S)), r == z3.fpPlusInfinity(S)),
            z3.Implies(z3.fpLT(a, z3.FPVal(self.exp_lo, S)), r == z3.fpPlusZero(S)),
            z3.Implies(z3.Not(z3.fpIsNaN(a)), z3.fpGEQ(r, z3.FPVal(0.0, S))),
            z3.Implies(z3.fpLEQ(a, z3.FPVal(self.exp_hi, S)), z3.Not(z3.fpIsInf(r))),
            z3.Implies(z3.fpGEQ(a, z3.FPVal(self.exp_lo + 1e-9, S)), z3.fpGT(r, z3.FPVal(0.0, S))),
            z3.Implies(z3.fpLEQ(a, z3.FPVal(0.0, S)), z3.fpLEQ(r, z3.FPVal(1.0, S))),
            z3.Implies(z3.fpGEQ(a, z3.FPVal(0.0, S)), z3.fpGEQ(r, z3.FPVal(1.0, S))),
            z3.Implies(z3.fpEQ(a, z3.FPVal(0.0, S)), r == z3.FPVal(1.0, S)),
        ]
        for (a2, r2) in self._apps("fp_exp_apps"):
            ax.append(z3.Implies(z3.fpLEQ(a, a2), z3.fpLEQ(r, r2)))
            ax.append(z3.Implies(z3.fpLEQ(a2, a), z3.fpLEQ(r2, r)))
        self._apps("fp_exp_apps").append((a, r))
        for f in ax:
            c.add_def(f)
        return r

    def log(self, a):
        c = core.cur()
        r = self.FLOG(a)
        done = c.notes.setdefault("fp_log_done", set())
        if r.get_id() in done:
            return r
        done.add(r.get_id())
        S = self.sort
        zero, one = z3.FPVal(0.0, S), z3.FPVal(1.0, S)
        ax = [
            z3.Implies(z3.fpIsNaN(a), z3.fpIsNaN(r)),
            z3.Implies(z3.fpLT(a, zero), z3.fpIsNaN(r)),
            z3.Implies(z3.fpEQ(a, zero), r == z3.fpMinusInfinity(S)),
            z3.Implies(a == z3.fpPlusInfinity(S), r == z3.fpPlusInfinity(S)),
            z3.Implies(
                z3.And(z3.fpGT(a, zero), z3.Not(z3.fpIsInf(a))),
                z3.And(z3.Not(z3.fpIsNaN(r)), z3.fpGEQ(r, z3.FPVal(-self.log_max, S)), z3.fpLEQ(r, z3.FPVal(self.log_max, S))),
            ),
            z3.Implies(z3.fpGEQ(a, one), z3.fpGEQ(r, zero)),
            z3.Implies(z3.And(z3.fpGT(a, zero), z3.fpLEQ(a, one)), z3.fpLEQ(r, zero)),
            z3.Implies(z3.fpEQ(a, one), z3.fpEQ(r, zero)),
        ]
        for K in (2.0, 4.0, 8.0, 16.0):
            ax.append(z3.Implies(z3.And(z3.fpGT(a, zero), z3.fpLEQ(a, z3.FPVal(K, S))), z3.fpLEQ(r, z3.FPVal(math.log(K) + 1e-6, S))))
        for (a2, r2) in self._apps("fp_log_apps"):
            both = z3.And(z3.fpGT(a, zero), z3.fpGT(a2, zero))
            ax.append(z3.Implies(z3.And(both, z3.fpLEQ(a, a2)), z3.fpLEQ(r, r2)))
            ax.append(z3.Implies(z3.And(both, z3.fpLEQ(a2, a)), z3.fpLEQ(r2, r)))
        self._apps("fp_log_apps").append((a, r))
        for f in ax:
            c.add_def(f)
        return r

    # -- max / min with NaN propagation (NumPy semantics) -------------------------
    def extreme_extra(self, cs, conds):
        nonan = z3.And(*[z3.Not(z3.fpIsNaN(c)) for c in cs])
        conds = [z3.simplify(z3.And(nonan, c)) for c in conds]
        conds.append(z3.simplify(z3.Not(nonan)))
        return conds

    def extreme_result(self, cs, k):
        return z3.fpNaN(self.sort)


def fp_value(v):
    """python float of an FP numeral"""
    if v is None:
        return None
    if z3.is_fp_value(v):
        if v.isNaN():
            return math.nan
        if v.isInf():
            return -math.inf if v.isNegative() else math.inf
        r = z3.simplify(z3.fpToReal(v))
        if z3.is_rational_value(r):
            return float(core.frac(r))
        if v.isZero():
            return -0.0 if v.isNegative() else 0.0
        return float(eval(v.as_string().replace("*(2**", "*(2.0**")))
    return None


# ---------------------------------------------------------------------------
# A sound abstraction of FP arithmetic (special values, signs, coarse
# magnitudes).  Every axiom below is a true fact of IEEE-754 round-to-nearest
# arithmetic, so `unsat` of the abstracted query implies `unsat` of the exact
# one; a `sat` answer of the abstraction proves nothing and is re-checked
# bit-precisely.  This is what makes the special-value obligations cheap:
# bit-blasting a Float64 multiplier is only paid when really needed.

_ARITH = {
    z3.Z3_OP_FPA_ROUND_TO_INTEGRAL: "rint",
    z3.Z3_OP_FPA_ADD: "add",
    z3.Z3_OP_FPA_SUB: "sub",
    z3.Z3_OP_FPA_MUL: "mul",
    z3.Z3_OP_FPA_DIV: "div",
    z3.Z3_OP_FPA_SQRT: "sqrt",
}


def fp_abstract(fs):
    cache: dict = {}
    axioms: list = []
    counter = [0]

    N, I, Zr, neg = z3.fpIsNaN, z3.fpIsInf, z3.fpIsZero, z3.fpIsNegative

    def fin(x):
        return z3.Not(z3.Or(N(x), I(x)))

    def fresh(sort):
        counter[0] += 1
        return z3.Const(f"fpabs!{counter[0]}", sort)

    def go(t):
        i = t.get_id()
        if i in cache:
            return cache[i]
        if not z3.is_app(t) or t.num_args() == 0:
            cache[i] = t
            return t
        ch = [go(c) for c in t.children()]
        k = t.decl().kind()
        if k in _ARITH and z3.is_fp(t):
            S = t.sort()
            one = z3.FPVal(1.0, S)
            zero = z3.FPVal(0.0, S)
            big = z3.FPVal(1e300 if S.sbits() > 24 else 1e30, S)
            r = fresh(S)
            op = _ARITH[k]
            if op == "rint":
                a = ch[1]
                axioms.append(N(r) == N(a))
                axioms.append(z3.Implies(I(a), r == a))
                axioms.append(z3.Implies(z3.And(fin(a), z3.fpGEQ(a, zero)), z3.And(fin(r), z3.fpGEQ(r, zero))))
                axioms.append(z3.Implies(z3.And(fin(a), z3.fpLEQ(a, zero)), z3.And(fin(r), z3.fpLEQ(r, zero))))
            elif op == "sqrt":
                a = ch[1]
                axioms.append(N(r) == z3.Or(N(a), z3.And(neg(a), z3.Not(Zr(a)))))
                axioms.append(z3.Implies(z3.Not(N(r)), z3.fpGEQ(r, zero)))
                axioms.append(z3.Implies(z3.And(I(a), z3.Not(neg(a))), I(r)))
                axioms.append(z3.Implies(z3.And(fin(a), z3.fpGEQ(a, zero)), fin(r)))
                axioms.append(z3.Implies(Zr(a), Zr(r)))
            else:
                a, b = ch[1], ch[2]
                if op == "sub":
                    b = z3.fpNeg(b)
                    op = "add"
                if op == "add":
                    axioms.append(N(r) == z3.Or(N(a), N(b), z3.And(I(a), I(b), neg(a) != neg(b))))
                    axioms.append(z3.Implies(z3.And(z3.Not(N(r)), I(a)), r == a))
                    axioms.append(z3.Implies(z3.And(z3.Not(N(r)), I(b)), r == b))
                    axioms.append(z3.Implies(z3.And(Zr(b), z3.Not(N(a)), z3.Not(Zr(a))), r == a))
                    axioms.append(z3.Implies(z3.And(Zr(a), z3.Not(N(b)), z3.Not(Zr(b))), r == b))
                    axioms.append(z3.Implies(z3.And(Zr(a), Zr(b)), Zr(r)))
                    both = z3.And(fin(a), fin(b))
                    axioms.append(z3.Implies(z3.And(both, z3.fpLEQ(z3.fpAbs(a), big), z3.fpLEQ(z3.fpAbs(b), big)), fin(r)))
                    # sign of the exact sum survives rounding; monotone in each argument
                    axioms.append(z3.Implies(z3.And(both, z3.fpGEQ(a, z3.fpNeg(b))), z3.fpGEQ(r, zero)))
                    axioms.append(z3.Implies(z3.And(both, z3.fpLEQ(a, z3.fpNeg(b))), z3.fpLEQ(r, zero)))
                    axioms.append(z3.Implies(z3.And(both, z3.fpLEQ(b, zero)), z3.fpLEQ(r, a)))
                    axioms.append(z3.Implies(z3.And(both, z3.fpGEQ(b, zero)), z3.fpGEQ(r, a)))
                    axioms.append(z3.Implies(z3.And(both, z3.fpLEQ(a, zero)), z3.fpLEQ(r, b)))
                    axioms.append(z3.Implies(z3.And(both, z3.fpGEQ(a, zero)), z3.fpGEQ(r, b)))
                    # coarse magnitudes (each is a true fact: |a+b| <= 2 max(|a|,|b|) <= 10 max)
                    for e in range(10, 16):
                        lo_, hi_ = z3.FPVal(10.0**e, S), z3.FPVal(10.0 ** (e + 1), S)
                        axioms.append(z3.Implies(z3.And(z3.fpLEQ(z3.fpAbs(a), lo_), z3.fpLEQ(z3.fpAbs(b), lo_)), z3.fpLEQ(z3.fpAbs(r), hi_)))
                    for K in (1.0, 2.0, 4.0, 8.0):
                        k1, k2 = z3.FPVal(K, S), z3.FPVal(2 * K, S)
                        axioms.append(z3.Implies(z3.And(both, z3.fpLEQ(a, k1), z3.fpLEQ(b, k1)), z3.fpLEQ(r, k2)))
                        axioms.append(z3.Implies(z3.And(both, z3.fpGEQ(a, z3.fpNeg(k1)), z3.fpGEQ(b, z3.fpNeg(k1))), z3.fpGEQ(r, z3.fpNeg(k2))))
                elif op == "mul":
                    axioms.append(N(r) == z3.Or(N(a), N(b), z3.And(I(a), Zr(b)), z3.And(Zr(a), I(b))))
                    axioms.append(z3.Implies(z3.Not(N(r)), neg(r) == z3.Xor(neg(a), neg(b))))
                    axioms.append(z3.Implies(z3.And(z3.Not(N(r)), z3.Or(I(a), I(b))), I(r)))
                    axioms.append(z3.Implies(z3.And(z3.Not(N(r)), z3.Or(Zr(a), Zr(b))), Zr(r)))
                    both = z3.And(fin(a), fin(b))
                    axioms.append(z3.Implies(z3.And(both, z3.fpLEQ(z3.fpAbs(a), one)), z3.fpLEQ(z3.fpAbs(r), z3.fpAbs(b))))
                    axioms.append(z3.Implies(z3.And(both, z3.fpLEQ(z3.fpAbs(b), one)), z3.fpLEQ(z3.fpAbs(r), z3.fpAbs(a))))
                    axioms.append(z3.Implies(z3.fpEQ(a, one), z3.Or(r == b, z3.And(N(r), N(b)))))
                    axioms.append(z3.Implies(z3.fpEQ(b, one), z3.Or(r == a, z3.And(N(r), N(a)))))
                    for K1 in (1.0, 2.0, 4.0):
                        for K2 in (1.0, 2.0, 4.0):
                            axioms.append(
                                z3.Implies(
                                    z3.And(both, z3.fpLEQ(z3.fpAbs(a), z3.FPVal(K1, S)), z3.fpLEQ(z3.fpAbs(b), z3.FPVal(K2, S))),
                                    z3.fpLEQ(z3.fpAbs(r), z3.FPVal(K1 * K2, S)),
                                )
                            )
                elif op == "div":
                    axioms.append(N(r) == z3.Or(N(a), N(b), z3.And(Zr(a), Zr(b)), z3.And(I(a), I(b))))
                    axioms.append(z3.Implies(z3.Not(N(r)), neg(r) == z3.Xor(neg(a), neg(b))))
                    axioms.append(z3.Implies(z3.And(z3.Not(N(r)), I(a)), I(r)))
                    axioms.append(z3.Implies(z3.And(fin(a), I(b)), Zr(r)))
                    axioms.append(z3.Implies(z3.And(z3.Not(N(r)), Zr(b)), I(r)))
                    axioms.append(z3.Implies(z3.And(z3.Not(N(r)), Zr(a)), Zr(r)))
                    axioms.append(z3.Implies(z3.And(fin(a), fin(b), z3.fpGEQ(z3.fpAbs(b), one)), z3.fpLEQ(z3.fpAbs(r), z3.fpAbs(a))))
                    axioms.append(z3.Implies(z3.fpEQ(b, one), z3.Or(r == a, z3.And(N(r), N(a)))))
            cache[i] = r
            return r
        changed = any(c.get_id() != o.get_id() for c, o in zip(ch, t.children()))
        r = t.decl()(*ch) if changed else t
        cache[i] = r
        return r

    out = [go(f) for f in fs]
    return out, axioms, counter[0]
