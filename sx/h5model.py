"""Hybrid HDF5 container for the save/load harness (C13).

Everything concrete goes through a REAL in-memory h5py file (core driver, no
backing store): group creation, attributes, name collisions, iteration order,
the conversions h5py applies to strings, lists, scalars and None-less values,
the dtype and shape of float arrays.  Only array payloads that contain symbolic
cells cannot be handed to h5py; for those a zero placeholder of the same shape
and float width is written to the real file (so structure, names and iteration
order stay h5py's own) and the symbolic payload is kept in a side table keyed
by the dataset's absolute path.  Reading such a dataset returns the payload.

Assumption this adds to a claim (listed as a stub): h5py stores a float array
and hands back the same values with the same shape and float width."""

from __future__ import annotations

import numpy as np


def _is_sym(x):
    import sx

    if isinstance(x, sx.Array):
        return True
    if isinstance(x, (list, tuple)):
        return any(_is_sym(v) for v in x)
    return False


def _to_payload(x):
    """What h5py would turn the value into, kept symbolic: lists of scalars and
    of arrays become one array."""
    import sx

    if isinstance(x, sx.Array):
        return x
    if isinstance(x, (list, tuple)):
        return sx.stack([sx.asarray(_to_payload(v)) for v in x])
    return sx.asarray(x)


class HDataset:
    def __init__(self, ds, side):
        self._ds = ds
        self._side = side

    @property
    def name(self):
        return self._ds.name

    @property
    def shape(self):
        return self._ds.shape

    @property
    def dtype(self):
        return self._ds.dtype

    @property
    def attrs(self):
        return self._ds.attrs

    def __getitem__(self, key):
        if self._ds.name in self._side:
            p = self._side[self._ds.name]
            if key == () or key is Ellipsis:
                return p
            return p[key]
        return self._ds[key]

    def __len__(self):
        return len(self._ds)

    def resize(self, *a, **k):
        return self._ds.resize(*a, **k)

    def __setitem__(self, key, value):
        if _is_sym(value):
            raise TypeError("hybrid HDF5 model: in-place assignment of symbolic data is not modelled")
        self._side.pop(self._ds.name, None)
        self._ds[key] = value


class HGroup:
    def __init__(self, g, side):
        self._g = g
        self._side = side

    # -- structure -----------------------------------------------------------
    @property
    def name(self):
        return self._g.name

    @property
    def attrs(self):
        return self._g.attrs

    @property
    def file(self):
        return HGroup(self._g.file, self._side)

    @property
    def mode(self):
        return self._g.file.mode

    def _wrap(self, obj):
        import h5py

        if isinstance(obj, h5py.Group):
            return HGroup(obj, self._side)
        return HDataset(obj, self._side)

    def create_group(self, name, **k):
        return HGroup(self._g.create_group(name, **k), self._side)

    def require_group(self, name):
        return HGroup(self._g.require_group(name), self._side)

    def create_dataset(self, name, shape=None, dtype=None, data=None, **k):
        if data is not None and _is_sym(data):
            import sx

            p = _to_payload(data)
            npdt = np.float32 if (p.dtype == sx.float32) else (np.float64 if p.dtype.kind == "f" else (np.bool_ if p.dtype.kind == "b" else np.int64))
            ds = self._g.create_dataset(name, data=np.zeros(p.shape, dtype=npdt), **k)
            self._side[ds.name] = p
            return HDataset(ds, self._side)
        return HDataset(self._g.create_dataset(name, shape=shape, dtype=dtype, data=data, **k), self._side)

    def __getitem__(self, name):
        return self._wrap(self._g[name])

    def __contains__(self, name):
        return name in self._g

    def __delitem__(self, name):
        full = self._g[name].name
        for k in [k for k in self._side if k == full or k.startswith(full + "/")]:
            del self._side[k]
        del self._g[name]

    def __iter__(self):
        return iter(self._g)

    def __len__(self):
        return len(self._g)

    def keys(self):
        return self._g.keys()

    def items(self):
        for k, v in self._g.items():
            yield k, self._wrap(v)

    def values(self):
        for v in self._g.values():
            yield self._wrap(v)

    def get(self, name, default=None):
        return self[name] if name in self else default

    # -- file protocol -------------------------------------------------------
    def __enter__(self):
        return self

    def __exit__(self, *a):
        return False

    def close(self):
        pass

    def flush(self):
        pass


_COUNT = [0]


def new_file():
    """A fresh in-memory hybrid file."""
    import h5py

    _COUNT[0] += 1
    f = h5py.File(f"sx-hybrid-{_COUNT[0]}.h5", "w", driver="core", backing_store=False)
    return HGroup(f, {})


def close_file(h):
    try:
        h._g.file.close()
    except Exception:  # noqa: BLE001
        pass
