"""sx -- a z3-backed Array-API namespace (engine SX of DESIGN.md section 2).

`import sx` gives the namespace module itself: `array_namespace(sx.Array)` is
this module, so aspire code written against `xp` executes here unmodified and
builds SMT terms instead of numbers.
"""

from __future__ import annotations

import builtins
import math
from fractions import Fraction as _Fraction

import numpy as _np
import z3

from . import core
from .core import (  # noqa: F401
    Ctx,
    HarnessError,
    Inconclusive,
    Infeasible,
    PathCut,
    cur,
    explore,
    rv,
    simp,
)

__array_api_version__ = "2023.12"

inf = math.inf
nan = math.nan
pi = math.pi
e = math.e
newaxis = None


# ---------------------------------------------------------------------------
# dtypes


class DType:
    def __init__(self, name, kind):
        self.name = name
        self.kind = kind  # 'f', 'b', 'i'

    def __repr__(self):
        return f"sx.{self.name}"

    def __eq__(self, o):
        return isinstance(o, DType) and o.name == self.name

    def __hash__(self):
        return hash(("sx", self.name))

    def __reduce__(self):
        return (dtype, (self.name,))


float64 = DType("float64", "f")
float32 = DType("float32", "f")
int64 = DType("int64", "i")
bool = DType("bool", "b")  # noqa: A001  (array-API name)
_DT = {"float64": float64, "float32": float32, "int64": int64, "bool": bool, "int32": int64, "float": float64, "int": int64}


def dtype(x):
    if isinstance(x, DType):
        return x
    if x is builtins.bool:
        return bool
    if x is builtins.float:
        return float64
    if x is builtins.int:
        return int64
    if isinstance(x, str):
        if x in _DT:
            return _DT[x]
        raise TypeError(f"unknown dtype {x!r}")
    nm = getattr(x, "name", None) or getattr(x, "__name__", None)
    if nm in _DT:
        return _DT[nm]
    raise TypeError(f"unknown dtype {x!r}")


def _promote(a: DType, b: DType) -> DType:
    if a == b:
        return a
    if a.kind == "f" and b.kind == "f":
        return float64
    if a.kind == "f":
        return a
    if b.kind == "f":
        return b
    if a.kind == "i" or b.kind == "i":
        return int64
    return bool


class _Info:
    def default_dtypes(self, device=None):
        return {"real floating": float64, "complex floating": None, "integral": int64, "indexing": int64}

    def default_device(self):
        return "cpu"

    def devices(self):
        return ["cpu"]

    def capabilities(self):
        return {"boolean indexing": True, "data-dependent shapes": True}

    def dtypes(self, device=None, kind=None):
        return dict(_DT)


def __array_namespace_info__():
    return _Info()


# ---------------------------------------------------------------------------
# cell-level operations (real sort; the FP sort plugs in the same interface)


def _is_term(x):
    return isinstance(x, z3.ExprRef)


class _ROps:
    name = "R"

    def const(self, x):
        return rv(x)

    def is_float_term(self, t):
        return _is_term(t) and t.sort() == core.R

    def add(self, a, b):
        return simp(a + b)

    def sub(self, a, b):
        return simp(a - b)

    def mul(self, a, b):
        r = core.cancel_mul(a, b)
        if r is not None:
            return r
        return simp(a * b)

    def div(self, a, b):
        r = core.cancel_div(a, b)
        if r is not None:
            return r
        return simp(a / b)

    def neg(self, a):
        return simp(-a)

    def lt(self, a, b):
        return simp(a < b)

    def le(self, a, b):
        return simp(a <= b)

    def gt(self, a, b):
        return simp(a > b)

    def ge(self, a, b):
        return simp(a >= b)

    def eq(self, a, b):
        return simp(a == b)

    def ne(self, a, b):
        return simp(a != b)

    def exp(self, a):
        return core.sx_exp(a)

    def log(self, a):
        return core.sx_log(a)

    def sqrt(self, a):
        return core.sx_sqrt(a)

    def isnan(self, a):
        return False

    def isfinite(self, a):
        return True

    def ite(self, c, a, b):
        return simp(z3.If(c, a, b))

    def zero(self):
        return z3.RealVal(0)

    def from_bool(self, b):
        if isinstance(b, (builtins.bool, _np.bool_)):
            return z3.RealVal(1 if b else 0)
        return simp(z3.If(b, z3.RealVal(1), z3.RealVal(0)))

    def from_int(self, i):
        if _is_term(i):
            return i
        return z3.RealVal(int(i))

    def mod(self, a, w):
        """a mod w for w > 0: a = k*w + r, 0 <= r < w, k in a bounded integer
        range (definitional constraint; inputs outside the range make the path
        vacuous, which the harness states as a bound)."""
        c = cur()
        if core.is_num(a) and core.is_num(w):
            fa, fw = core.frac(a), core.frac(w)
            return rv(fa - (fa // fw) * fw)
        k = c.fresh("modk")
        K = c.mod_range
        c.add_def(z3.Or(*[k == j for j in range(-K, K + 1)]))
        r = simp(a - k * w)
        c.add_def(z3.And(r >= 0, r < w))
        c.notes.setdefault("mod", []).append((a, w, k))
        return r


OPS = _ROps()


def set_ops(o):
    global OPS
    OPS = o


# ---------------------------------------------------------------------------
# the array


def _obj(shape=()):
    return _np.empty(shape, dtype=object)


def _cells(a: _np.ndarray):
    return a.ravel().tolist() if a.dtype == object else a.ravel().tolist()


def _map(f, *arrs):
    bs = _np.broadcast_arrays(*[_np.asarray(x, dtype=object) if not isinstance(x, _np.ndarray) else x for x in arrs])
    out = _obj(bs[0].shape)
    flat = [b.ravel() for b in bs]
    o = out.ravel()
    for i in range(o.size):
        o[i] = f(*[fl[i] for fl in flat])
    return out.reshape(bs[0].shape)


def _concrete_bool(a: _np.ndarray):
    """object array of z3 Bool / python bool -> native bool array if possible."""
    if a.dtype != object:
        return a.astype(builtins.bool)
    out = _np.empty(a.shape, dtype=builtins.bool)
    fo = out.ravel()
    for i, c in enumerate(a.ravel()):
        if isinstance(c, (builtins.bool, _np.bool_)):
            fo[i] = builtins.bool(c)
        elif z3.is_true(c):
            fo[i] = True
        elif z3.is_false(c):
            fo[i] = False
        else:
            return a
    return out


def _bterm(c):
    if isinstance(c, (builtins.bool, _np.bool_)):
        return z3.BoolVal(builtins.bool(c))
    return c


class _At:
    def __init__(self, arr):
        self.arr = arr

    def __getitem__(self, key):
        return _AtKey(self.arr, key)


class _AtKey:
    def __init__(self, arr, key):
        self.arr, self.key = arr, key

    def set(self, value):
        out = Array(self.arr.a.copy(), self.arr.dt)
        out._unlocked = True
        out[self.key] = value
        out._unlocked = False
        return out


class Array:
    __array_priority__ = 1000.0
    __slots__ = ("a", "dt", "_unlocked")

    def __init__(self, a, dt: DType):
        if not isinstance(a, _np.ndarray):
            x = _obj(())
            x[()] = a
            a = x
        self.a = a
        self.dt = dt

    # -- protocol -----------------------------------------------------------
    def __array_namespace__(self, api_version=None):
        import sx

        return sx

    @property
    def dtype(self):
        return self.dt

    @property
    def device(self):
        return "cpu"

    def to_device(self, device, /, stream=None):
        return self

    @property
    def shape(self):
        return self.a.shape

    @property
    def ndim(self):
        return self.a.ndim

    @property
    def size(self):
        return self.a.size

    @property
    def T(self):
        return Array(self.a.T, self.dt)

    @property
    def mT(self):
        return Array(_np.swapaxes(self.a, -1, -2), self.dt)

    def __len__(self):
        if self.a.ndim == 0:
            raise TypeError("len() of a 0-d array")
        return self.a.shape[0]

    def __iter__(self):
        if self.a.ndim == 0:
            raise TypeError("iteration over a 0-d array")
        for i in range(self.a.shape[0]):
            yield self[i]

    def __array__(self, dtype=None, copy=None):
        if self.a.dtype != object:
            return self.a if dtype is None else self.a.astype(dtype)
        if dtype is not None and dtype != object:
            vals = [_cell_float(c) for c in self.a.ravel()]
            return _np.array(vals, dtype=dtype).reshape(self.a.shape)
        return self.a

    def __deepcopy__(self, memo):
        return Array(self.a.copy(), self.dt)

    def __copy__(self):
        return Array(self.a.copy(), self.dt)

    def copy(self):
        return Array(self.a.copy(), self.dt)

    def __reduce__(self):
        if self.a.dtype != object:
            return (_rebuild_native, (self.a, self.dt.name))
        cells = [(_ser(c)) for c in self.a.ravel()]
        return (_rebuild, (cells, self.a.shape, self.dt.name))

    def __repr__(self):
        return f"sx.Array(shape={self.a.shape}, dtype={self.dt.name})"

    def __format__(self, spec):
        if self.a.ndim == 0:
            c = self.a[()]
            if _is_term(c) and core.is_num(c):
                return format(float(core.frac(c)), spec)
            if not _is_term(c):
                return format(c, spec)
        return "<sym>"

    def __hash__(self):
        return id(self)

    # -- scalar conversions ---------------------------------------------------
    def _scalar(self):
        if self.a.size != 1:
            raise ValueError("The truth value of an array with more than one element is ambiguous")
        return self.a.ravel()[0]

    def __bool__(self):
        c = self._scalar()
        if isinstance(c, (builtins.bool, _np.bool_, int, _np.integer)):
            return builtins.bool(c)
        if z3.is_bool(c):
            return cur().branch(c)
        if OPS.is_float_term(c):
            return cur().branch(OPS.ne(c, OPS.zero()))
        raise HarnessError("bool() of an unexpected cell")

    def __float__(self):
        c = self._scalar()
        return _cell_float(c)

    def __int__(self):
        c = self._scalar()
        if isinstance(c, (int, _np.integer, builtins.bool, _np.bool_)):
            return int(c)
        c = simp(c)
        if core.is_num(c):
            f = core.frac(c)
            return int(f)
        ctx = cur()
        hi = ctx.notes.get("int_enum_max", 12)
        conds = [c == k for k in range(0, hi + 1)]
        conds.append(z3.And(*[c != k for k in range(0, hi + 1)]))
        k = ctx.choose(conds)
        if k == hi + 1:
            raise HarnessError("symbolic integer outside the enumeration range")
        return k

    __index__ = __int__

    def __round__(self, ndigits=None):
        c = self._scalar()
        if not _is_term(c):
            return round(c, ndigits) if ndigits is not None else round(c)
        if ndigits is not None:
            raise HarnessError("round(x, ndigits) of a symbolic value")
        if OPS.name == "F":
            return Array(z3.simplify(z3.fpRoundToIntegral(z3.RNE(), c)), self.dt)
        c = simp(c)
        if core.is_num(c):
            return round(float(core.frac(c)))
        raise HarnessError("round() of a symbolic real")

    def item(self):
        c = self._scalar()
        if _is_term(c):
            return Array(c, self.dt)
        return c

    def tolist(self):
        def conv(c):
            if _is_term(c):
                if core.is_num(c):
                    return float(core.frac(c))
                return Array(c, self.dt)
            return c

        if self.a.ndim == 0:
            return conv(self.a[()])
        return _np.vectorize(conv, otypes=[object])(self.a).tolist()

    # -- shape manipulation ---------------------------------------------------
    def flatten(self):
        return Array(self.a.flatten(), self.dt)

    def ravel(self):
        return Array(self.a.ravel(), self.dt)

    def reshape(self, *shape):
        if len(shape) == 1 and isinstance(shape[0], (tuple, list)):
            shape = shape[0]
        return Array(self.a.reshape(shape), self.dt)

    def squeeze(self, axis=None):
        return Array(self.a.squeeze(axis), self.dt)

    def astype(self, dt, copy=True):
        return astype(self, dt)

    # -- indexing -------------------------------------------------------------
    def _norm_key(self, key):
        """Returns (numpy_key, symbolic_index_or_None)."""
        if not isinstance(key, tuple):
            key = (key,)
        out = []
        sym = None
        for pos, k in enumerate(key):
            if isinstance(k, Array):
                if k.dt.kind == "b":
                    kb = _concrete_bool(k.a)
                    if kb.dtype == object:
                        kb = _decide_mask(kb)
                    out.append(kb)
                elif k.dt.kind == "i":
                    if k.a.dtype == object:
                        if pos != 0 or len(key) != 1:
                            raise HarnessError("symbolic integer index only supported as the sole key")
                        sym = k
                        out.append(None)
                    else:
                        ka = k.a
                        out.append(int(ka[()]) if ka.ndim == 0 else ka)
                else:
                    raise IndexError("float index")
            elif isinstance(k, list):
                out.append(_np.asarray(k))
            else:
                out.append(k)
        return tuple(out), sym

    def __getitem__(self, key):
        nk, sym = self._norm_key(key)
        if sym is not None:
            return _select(self, sym)
        r = self.a[nk if len(nk) != 1 else nk[0]]
        if not isinstance(r, _np.ndarray):
            return Array(r, self.dt)
        return Array(r, self.dt)

    @property
    def at(self):
        """JAX-style functional update: x.at[idx].set(v) returns a new array."""
        return _At(self)

    def __setitem__(self, key, value):
        if core._cur is not None and core._cur.notes.get("immutable_arrays") and not getattr(self, "_unlocked", False):
            # JAX discipline: arrays are immutable (utils.update_at_indices falls
            # back to x.at[idx].set(y) on this TypeError)
            raise TypeError("'sx.Array' object does not support item assignment (immutable mode)")
        nk, sym = self._norm_key(key)
        if sym is not None:
            raise HarnessError("assignment through a symbolic index")
        nk = nk if len(nk) != 1 else nk[0]
        if isinstance(value, float) and (value != value or value in (inf, -inf)) and OPS.name == "R":
            if _np.size(self.a[nk]) == 0:
                return
            raise HarnessError("non-finite value stored into a real-sort array")
        v = _coerce(value, self.dt)
        if self.dt.kind == "f" and v.dt.kind != "f":
            v = astype(v, self.dt)
        if self.a.dtype != object and v.a.dtype == object:
            self.a = self.a.astype(object)
        self.a[nk] = v.a

    # -- arithmetic -----------------------------------------------------------
    def _bin(self, other, op, rev=False):
        o = _coerce(other, self.dt)
        if o is NotImplemented:
            return NotImplemented
        a, b = (o, self) if rev else (self, o)
        return _arith(a, b, op)

    def __add__(self, o):
        return self._bin(o, "add")

    def __radd__(self, o):
        return self._bin(o, "add", True)

    def __sub__(self, o):
        return self._bin(o, "sub")

    def __rsub__(self, o):
        return self._bin(o, "sub", True)

    def __mul__(self, o):
        return self._bin(o, "mul")

    def __rmul__(self, o):
        return self._bin(o, "mul", True)

    def __truediv__(self, o):
        return self._bin(o, "div")

    def __rtruediv__(self, o):
        return self._bin(o, "div", True)

    def __mod__(self, o):
        return self._bin(o, "mod")

    def __rmod__(self, o):
        # python int % symbolic integer with a declared finite domain
        if isinstance(o, (int, _np.integer)) and self.a.ndim == 0 and _is_term(self.a[()]):
            dom = cur().notes.get("int_domains", {}).get(self.a[()].get_id())
            if dom:
                t = self.a[()]
                if 0 in dom:
                    # python raises on a zero modulus: that is a path outcome
                    if cur().branch(t == 0):
                        raise ZeroDivisionError("integer modulo by zero")
                    dom = [v for v in dom if v != 0]
                acc = z3.RealVal(int(o) % dom[-1])
                for v in reversed(dom[:-1]):
                    acc = z3.If(t == v, z3.RealVal(int(o) % v), acc)
                return Array(simp(acc), int64)
        return self._bin(o, "mod", True)

    def __neg__(self):
        return Array(_map(OPS.neg, _fcells(self)), _fdt(self))

    def __pos__(self):
        return self

    def __abs__(self):
        return abs(self)

    def __pow__(self, k):
        if isinstance(k, Array) and k.a.ndim == 0 and not _is_term(k.a[()]):
            k = k.a[()]
        if isinstance(k, (int, _np.integer)) or (isinstance(k, float) and k == int(k)):
            k = int(k)
            if k == 0:
                return ones_like(self)
            out = self
            for _ in range(builtins.abs(k) - 1):
                out = out * self
            return out if k > 0 else 1 / out
        if isinstance(k, float) and k == 0.5:
            return sqrt(self)
        raise HarnessError(f"unsupported power {k!r}")

    def __rpow__(self, base):
        # base ** self  (python float base): exp(self * log(base))
        if isinstance(base, (int, float)) and base > 0:
            if self.a.ndim == 0 and core.is_num(self.a[()]):
                return Array(rv(float(base) ** float(core.frac(self.a[()]))), self.dt)
            return exp(self * math.log(base))
        raise HarnessError("unsupported rpow")

    def _cmp(self, other, op):
        if OPS.name == "R" and isinstance(other, (float, _np.floating)) and other in (math.inf, -math.inf) and self.dt.kind != "b":
            # every value of the real sort is finite
            neg = other < 0
            val = {"gt": neg, "ge": neg, "lt": not neg, "le": not neg, "eq": False, "ne": True}[op]
            return Array(_np.full(self.shape, val, dtype=builtins.bool), bool)
        o = _coerce(other, self.dt)
        if o is NotImplemented:
            return NotImplemented
        if self.dt.kind == "b" and o.dt.kind == "b" and op in ("eq", "ne"):
            f = (lambda x, y: simp(_bterm(x) == _bterm(y))) if op == "eq" else (lambda x, y: simp(_bterm(x) != _bterm(y)))
            return Array(_concrete_bool(_map(f, self.a, o.a)), bool)
        r = _map(getattr(OPS, op), _fcells(self), _fcells(o))
        return Array(_concrete_bool(r), bool)

    def __lt__(self, o):
        return self._cmp(o, "lt")

    def __le__(self, o):
        return self._cmp(o, "le")

    def __gt__(self, o):
        return self._cmp(o, "gt")

    def __ge__(self, o):
        return self._cmp(o, "ge")

    def __eq__(self, o):  # noqa: D105
        if o is None or isinstance(o, str):
            return False
        return self._cmp(o, "eq")

    def __ne__(self, o):
        if o is None or isinstance(o, str):
            return True
        return self._cmp(o, "ne")

    def __invert__(self):
        if self.dt.kind != "b":
            raise TypeError("~ on a non-boolean array")
        if self.a.dtype != object:
            return Array(~self.a, bool)
        return Array(_concrete_bool(_map(lambda c: simp(z3.Not(_bterm(c))), self.a)), bool)

    def __and__(self, o):
        return logical_and(self, o)

    def __rand__(self, o):
        return logical_and(o, self)

    def __or__(self, o):
        return logical_or(self, o)

    def __ror__(self, o):
        return logical_or(o, self)

    # -- reductions (methods, numpy style) --------------------------------------
    def sum(self, axis=None, dtype=None, keepdims=False):
        return sum(self, axis=axis, keepdims=keepdims)

    def mean(self, axis=None, keepdims=False):
        return mean(self, axis=axis, keepdims=keepdims)

    def var(self, axis=None, keepdims=False):
        return var(self, axis=axis, keepdims=keepdims)

    def std(self, axis=None, keepdims=False):
        return std(self, axis=axis, keepdims=keepdims)

    def max(self, axis=None, keepdims=False):
        return max(self, axis=axis, keepdims=keepdims)

    def min(self, axis=None, keepdims=False):
        return min(self, axis=axis, keepdims=keepdims)

    def any(self, axis=None):
        return any(self, axis=axis)

    def all(self, axis=None):
        return all(self, axis=axis)

    # -- numpy interop ----------------------------------------------------------
    def __array_ufunc__(self, ufunc, method, *inputs, **kwargs):
        if method != "__call__":
            return NotImplemented
        f = _UFUNCS.get(ufunc.__name__)
        if f is None:
            raise HarnessError(f"numpy ufunc {ufunc.__name__} reached a symbolic array")
        return f(*inputs)

    def __array_function__(self, func, types, args, kwargs):
        f = _NPFUNCS.get(func.__name__)
        if f is None:
            raise HarnessError(f"numpy function {func.__name__} reached a symbolic array")
        return f(*args, **kwargs)


def _cell_float(c):
    if _is_term(c):
        c = simp(c)
        if core.is_num(c):
            return float(core.frac(c))
        raise HarnessError("float() of a symbolic value")
    return float(c)


def _ser(c):
    if _is_term(c):
        return ("t", c.serialize())
    return ("v", c)


def _deser(x):
    k, v = x
    if k == "t":
        return z3.deserialize(v)
    return v


def _rebuild(cells, shape, dtname):
    a = _obj((len(cells),))
    for i, c in enumerate(cells):
        a[i] = _deser(c)
    return Array(a.reshape(shape), _DT[dtname])


def _rebuild_native(a, dtname):
    return Array(a, _DT[dtname])


def _decide_mask(kb):
    """Symbolic boolean mask used as an index: fork per element."""
    out = _np.empty(kb.shape, dtype=builtins.bool)
    fo = out.ravel()
    for i, c in enumerate(kb.ravel()):
        if isinstance(c, (builtins.bool, _np.bool_)):
            fo[i] = builtins.bool(c)
        else:
            fo[i] = cur().branch(c)
    return out


def _select(x: Array, idx: Array):
    """x[idx] for a symbolic integer index vector: an ite-select per output
    row, so one path covers every index vector."""
    n = x.a.shape[0]
    ia = idx.a
    if ia.ndim == 0:
        return _select(x, Array(ia.reshape(1), idx.dt))[0]
    rows = []
    for k in range(ia.shape[0]):
        ik = ia[k]
        if not _is_term(ik):
            rows.append(x.a[int(ik)])
            continue
        acc = x.a[n - 1]
        for j in range(n - 2, -1, -1):
            src = x.a[j]
            cond = ik == j
            if isinstance(acc, _np.ndarray):
                acc = _map(lambda s, t, cond=cond: _ite_cell(cond, s, t), src, acc)
            else:
                acc = _ite_cell(cond, src, acc)
        rows.append(acc)
    out = _obj((len(rows),) + x.a.shape[1:])
    for k, r in enumerate(rows):
        out[k] = r
    return Array(out, x.dt)


def _ite_cell(cond, s, t):
    if not _is_term(s) and not _is_term(t):
        if s == t:
            return s
        s = OPS.const(s) if not isinstance(s, (builtins.bool, _np.bool_)) else z3.BoolVal(builtins.bool(s))
        t = OPS.const(t) if not isinstance(t, (builtins.bool, _np.bool_)) else z3.BoolVal(builtins.bool(t))
    elif not _is_term(s):
        s = OPS.const(s) if not z3.is_bool(t) else z3.BoolVal(builtins.bool(s))
    elif not _is_term(t):
        t = OPS.const(t) if not z3.is_bool(s) else z3.BoolVal(builtins.bool(t))
    return simp(z3.If(cond, s, t))


# ---------------------------------------------------------------------------
# coercion


def _fdt(x: Array) -> DType:
    return x.dt if x.dt.kind == "f" else float64


def _fcells(x: Array) -> _np.ndarray:
    """Cells of x as float-sort terms."""
    if x.dt.kind == "f":
        return x.a
    if x.dt.kind == "b":
        return _map(OPS.from_bool, x.a)
    return _map(OPS.from_int, x.a)


def _coerce(v, like: DType | None = None):
    if isinstance(v, Array):
        return v
    if isinstance(v, (builtins.bool, _np.bool_)):
        return Array(_np.asarray(builtins.bool(v)), bool)
    if isinstance(v, (int, _np.integer)):
        if like is not None and like.kind == "f":
            return Array(OPS.const(int(v)), like)
        return Array(_np.asarray(int(v)), int64)
    if isinstance(v, (float, _np.floating)):
        dt = like if (like is not None and like.kind == "f") else float64
        return Array(OPS.const(float(v)), dt)
    if isinstance(v, _Fraction):
        dt = like if (like is not None and like.kind == "f") else float64
        return Array(OPS.const(v), dt)
    if _is_term(v):
        if z3.is_bool(v):
            return Array(v, bool)
        return Array(v, like if (like is not None and like.kind == "f") else float64)
    if isinstance(v, (_np.ndarray, list, tuple)):
        return asarray(v)
    return NotImplemented


def _arith(a: Array, b: Array, op):
    dt = _promote(_fdt(a), _fdt(b)) if (a.dt.kind == "f" or b.dt.kind == "f" or op == "div") else None
    if dt is None:
        # integer / boolean arithmetic on concrete arrays
        if a.a.dtype != object and b.a.dtype != object:
            f = {"add": _np.add, "sub": _np.subtract, "mul": _np.multiply, "mod": _np.mod}[op]
            r = f(a.a.astype(_np.int64), b.a.astype(_np.int64))
            return Array(_np.asarray(r), int64)
        dt = int64
        fa, fb = _map(OPS.from_int, a.a) if a.dt.kind != "b" else _map(OPS.from_bool, a.a), (
            _map(OPS.from_int, b.a) if b.dt.kind != "b" else _map(OPS.from_bool, b.a)
        )
        return Array(_map(getattr(OPS, op), fa, fb), dt)
    # python scalars do not promote (array API): a 0-d operand created from a
    # python scalar carries `like`'s dtype already (see _coerce)
    return Array(_map(getattr(OPS, op), _fcells(a), _fcells(b)), dt)


# ---------------------------------------------------------------------------
# creation


def asarray(x, /, *, dtype=None, device=None, copy=None):
    dt = globals()["dtype"](dtype) if dtype is not None else None
    if isinstance(x, Array):
        r = Array(x.a.copy() if copy else x.a, x.dt)
        return astype(r, dt) if dt is not None and dt != r.dt else r
    if _is_term(x):
        r = _coerce(x)
        return astype(r, dt) if dt is not None else r
    if isinstance(x, _np.ndarray):
        if x.dtype == object:
            cells = x.ravel().tolist()
            if builtins.any(isinstance(c, Array) for c in cells):
                return asarray(x.tolist(), dtype=dtype)
            if builtins.all(isinstance(c, (builtins.bool, _np.bool_)) or (_is_term(c) and z3.is_bool(c)) for c in cells) and cells:
                r = Array(_concrete_bool(x), bool)
            else:
                out = _obj(x.shape)
                fo = out.ravel()
                for i, c in enumerate(cells):
                    fo[i] = c if _is_term(c) else OPS.const(float(c))
                r = Array(out, float64)
        elif x.dtype.kind == "b":
            r = Array(x.copy(), bool)
        elif x.dtype.kind in "iu":
            r = Array(x.astype(_np.int64), int64)
        elif x.dtype.kind == "f":
            out = _obj(x.shape)
            fo = out.ravel()
            for i, c in enumerate(x.ravel().tolist()):
                fo[i] = OPS.const(c)
            r = Array(out, float32 if x.dtype == _np.float32 else float64)
        else:
            raise HarnessError(f"asarray of numpy dtype {x.dtype}")
        return astype(r, dt) if dt is not None and dt != r.dt else r
    if isinstance(x, (list, tuple)):
        if len(x) == 0:
            r = Array(_obj((0,)), dt or float64)
            return r
        parts = [asarray(v) for v in x]
        pdt = parts[0].dt
        for p in parts[1:]:
            pdt = _promote(pdt, p.dt)
        parts = [astype(p, pdt) for p in parts]
        if pdt.kind != "f" and builtins.all(p.a.dtype != object for p in parts):
            r = Array(_np.stack([p.a for p in parts]), pdt)
        else:
            out = _obj((len(parts),) + parts[0].a.shape)
            for i, p in enumerate(parts):
                out[i] = p.a if p.a.ndim else p.a[()]
            r = Array(out, pdt)
        return astype(r, dt) if dt is not None and dt != r.dt else r
    r = _coerce(x)
    if r is NotImplemented:
        raise HarnessError(f"asarray of {type(x)}")
    return astype(r, dt) if dt is not None and dt != r.dt else r


def astype(x: Array, dt, /, *, copy=True, device=None):
    dt = dtype(dt)
    if x.dt == dt:
        return x
    if dt.kind == "f":
        if x.dt.kind == "f":
            return Array(OPS.cast(x.a, x.dt, dt) if hasattr(OPS, "cast") else x.a, dt)
        return Array(_fcells(x), dt)
    if dt.kind == "b":
        if x.dt.kind == "b":
            return x
        if x.a.dtype != object:
            return Array(x.a != 0, bool)
        return Array(_concrete_bool(_map(lambda c: OPS.ne(c, OPS.zero()), _fcells(x))), bool)
    if dt.kind == "i":
        if x.a.dtype != object:
            return Array(x.a.astype(_np.int64), int64)
        return Array(_fcells(x), int64)
    raise HarnessError("astype")


def _full(shape, value, dt):
    if isinstance(shape, (int, _np.integer)):
        shape = (int(shape),)
    shape = tuple(int(s) for s in shape)
    dt = dtype(dt) if dt is not None else float64
    if dt.kind == "b":
        return Array(_np.full(shape, builtins.bool(value)), bool)
    if dt.kind == "i":
        return Array(_np.full(shape, int(value), dtype=_np.int64), int64)
    out = _obj(shape)
    c = OPS.const(float(value))
    fo = out.ravel()
    for i in range(fo.size):
        fo[i] = c
    return Array(out, dt)


def zeros(shape, *, dtype=None, device=None):
    return _full(shape, 0.0, dtype)


def ones(shape, *, dtype=None, device=None):
    return _full(shape, 1.0, dtype)


def full(shape, fill_value, *, dtype=None, device=None):
    return _full(shape, fill_value, dtype)


def zeros_like(x, *, dtype=None, device=None):
    return _full(x.shape, 0.0, dtype or x.dt)


def ones_like(x, *, dtype=None, device=None):
    return _full(x.shape, 1.0, dtype or x.dt)


def full_like(x, /, fill_value, *, dtype=None, device=None):
    return _full(x.shape, fill_value, dtype or x.dt)


def empty_like(x, /, *, dtype=None, device=None):
    return _full(x.shape, 0.0, dtype or x.dt)


def empty(shape, *, dtype=None, device=None):
    return _full(shape, 0.0, dtype)


def arange(start, stop=None, step=1, *, dtype=None, device=None):
    return asarray(_np.arange(start, stop, step), dtype=dtype)


def copy(x):
    return asarray(x).copy()


def array(x, dtype=None, copy=True):
    return asarray(x, dtype=dtype, copy=copy)


def to_device(x, device, /, *, stream=None):
    return x


def atleast_1d(x):
    x = asarray(x)
    return Array(_np.atleast_1d(x.a), x.dt)


def atleast_2d(x):
    x = asarray(x)
    return Array(_np.atleast_2d(x.a), x.dt)


def reshape(x, shape, /, *, copy=None):
    return Array(x.a.reshape(shape), x.dt)


def concatenate(arrays, /, *, axis=0):
    arrays = [asarray(a) for a in arrays]
    dt = arrays[0].dt
    for a in arrays[1:]:
        dt = _promote(dt, a.dt)
    arrays = [astype(a, dt) for a in arrays]
    if builtins.all(a.a.dtype != object for a in arrays):
        return Array(_np.concatenate([a.a for a in arrays], axis=axis), dt)
    return Array(_np.concatenate([a.a.astype(object) for a in arrays], axis=axis), dt)


concat = concatenate


def stack(arrays, /, *, axis=0):
    arrays = [asarray(a) for a in arrays]
    dt = arrays[0].dt
    for a in arrays[1:]:
        dt = _promote(dt, a.dt)
    arrays = [astype(a, dt) for a in arrays]
    return Array(_np.stack([a.a.astype(object) if dt.kind == "f" else a.a for a in arrays], axis=axis), dt)


def expand_dims(x, /, *, axis=0):
    return Array(_np.expand_dims(x.a, axis), x.dt)


def squeeze(x, /, axis):
    return Array(_np.squeeze(x.a, axis), x.dt)


def broadcast_to(x, /, shape):
    return Array(_np.broadcast_to(x.a, shape).copy(), x.dt)


def permute_dims(x, /, axes):
    return Array(_np.transpose(x.a, axes), x.dt)


def flip(x, /, *, axis=None):
    return Array(_np.flip(x.a, axis), x.dt)


def take(x, indices, /, *, axis=0):
    if axis != 0:
        raise HarnessError("take along axis != 0")
    return x[asarray(indices)]


# ---------------------------------------------------------------------------
# element-wise functions


def _un(x, f):
    x = asarray(x)
    return Array(_map(f, _fcells(x)), _fdt(x))


def exp(x, /):
    return _un(x, lambda c: OPS.exp(c))


def log(x, /):
    return _un(x, lambda c: OPS.log(c))


def log1p(x, /):
    x = asarray(x)
    one = OPS.const(1.0)
    return Array(_map(lambda c: OPS.log(OPS.add(one, c)), _fcells(x)), _fdt(x))


def expm1(x, /):
    x = asarray(x)
    one = OPS.const(1.0)
    return Array(_map(lambda c: OPS.sub(OPS.exp(c), one), _fcells(x)), _fdt(x))


def sqrt(x, /):
    return _un(x, lambda c: OPS.sqrt(c))


def tanh(x, /):
    e2 = exp(2 * asarray(x))
    return (e2 - 1) / (e2 + 1)


def logaddexp(a, b, /):
    a, b = asarray(a), _coerce(b)
    m = maximum(a, b)
    return m + log(exp(a - m) + exp(b - m))


def cumulative_sum(x, /, *, axis=None, dtype=None, include_initial=False):
    x = asarray(x)
    if x.ndim != 1 and axis is None:
        raise HarnessError("cumulative_sum needs an axis")
    cells = _fcells(x).ravel().tolist() if x.ndim == 1 else None
    if cells is None:
        raise HarnessError("cumulative_sum on n-d arrays is not modelled")
    out, acc = [], None
    for c in cells:
        acc = c if acc is None else OPS.add(acc, c)
        out.append(acc)
    a = _obj((len(out),))
    for i, c in enumerate(out):
        a[i] = c
    return Array(a, _fdt(x))


def count_nonzero(x, /, *, axis=None, keepdims=False):
    return sum(astype(asarray(x), bool), axis=axis, keepdims=keepdims)


def square(x, /):
    return x * x


def negative(x, /):
    return -asarray(x)


def positive(x, /):
    return asarray(x)


def _ctx_ite(cond, a, b, expect=True):
    """ite(cond, a, b) simplified in the context of the current path: if one
    side is infeasible the other is returned (no decision is recorded).
    `expect` says which value the condition usually has; the opposite is
    tested for infeasibility first (unsat answers are the cheap ones)."""
    cond = simp(cond) if _is_term(cond) else cond
    if isinstance(cond, (builtins.bool, _np.bool_)):
        return a if cond else b
    if z3.is_true(cond):
        return a
    if z3.is_false(cond):
        return b
    ctx = cur()
    if ctx.notes.get("no_ctx_simplify"):
        return OPS.ite(cond, a, b)
    if expect:
        r2, _ = ctx.check([z3.Not(cond)])
        if r2 == "unsat":
            return a
        r1, _ = ctx.check([cond])
        if r1 == "unsat":
            return b
    else:
        r1, _ = ctx.check([cond])
        if r1 == "unsat":
            return b
        r2, _ = ctx.check([z3.Not(cond)])
        if r2 == "unsat":
            return a
    return OPS.ite(cond, a, b)


def abs(x, /):  # noqa: A001
    x = asarray(x)
    if hasattr(OPS, "abs"):
        return Array(_map(OPS.abs, _fcells(x)), _fdt(x))
    z = OPS.zero()
    return Array(_map(lambda c: _ctx_ite(OPS.ge(c, z), c, OPS.neg(c)), _fcells(x)), _fdt(x))


def sign(x, /):
    x = asarray(x)
    z = OPS.zero()
    one = OPS.const(1.0)
    return Array(
        _map(lambda c: _ctx_ite(OPS.gt(c, z), one, _ctx_ite(OPS.lt(c, z), OPS.neg(one), z)), _fcells(x)),
        _fdt(x),
    )


def clip(x, /, min=None, max=None):  # noqa: A002
    x = asarray(x)
    cells = _fcells(x)
    if min is not None:
        lo = _fcells(_coerce(min, _fdt(x)))
        cells = _map(lambda c, l: _ctx_ite(OPS.lt(c, l), l, c, expect=False), cells, lo)
    if max is not None:
        hi = _fcells(_coerce(max, _fdt(x)))
        cells = _map(lambda c, h: _ctx_ite(OPS.gt(c, h), h, c, expect=False), cells, hi)
    return Array(cells, _fdt(x))


def where(cond, a, b, /):
    cond = asarray(cond)
    if cond.a.dtype != object:
        if not cond.a.any():
            r = asarray(b)
            return Array(_np.broadcast_to(r.a, _np.broadcast_shapes(cond.shape, r.shape)).copy(), r.dt)
        if cond.a.all():
            r = asarray(a)
            return Array(_np.broadcast_to(r.a, _np.broadcast_shapes(cond.shape, r.shape)).copy(), r.dt)
    a = _coerce(a)
    b = _coerce(b, a.dt if isinstance(a, Array) else None)
    if a.dt.kind == "f" or b.dt.kind == "f":
        dt = _promote(_fdt(a), _fdt(b))
        ca, cb = _fcells(a), _fcells(b)
    else:
        dt = a.dt
        ca, cb = a.a, b.a
    cc = cond.a

    def pick(c, p, q):
        if isinstance(c, (builtins.bool, _np.bool_)):
            return p if c else q
        return _ite_cell(c, p, q)

    return Array(_map(pick, cc, ca, cb), dt)


def maximum(a, b, /):
    a = asarray(a)
    b = _coerce(b, a.dt)
    return Array(_map(lambda p, q: _ctx_ite(OPS.ge(p, q), p, q), _fcells(a), _fcells(b)), _promote(_fdt(a), _fdt(b)))


def minimum(a, b, /):
    a = asarray(a)
    b = _coerce(b, a.dt)
    return Array(_map(lambda p, q: _ctx_ite(OPS.le(p, q), p, q), _fcells(a), _fcells(b)), _promote(_fdt(a), _fdt(b)))


def isnan(x, /):
    x = asarray(x)
    if x.dt.kind != "f":
        return Array(_np.zeros(x.shape, dtype=builtins.bool), bool)
    return Array(_concrete_bool(_map(OPS.isnan, x.a)), bool)


def isfinite(x, /):
    x = asarray(x)
    if x.dt.kind != "f":
        return Array(_np.ones(x.shape, dtype=builtins.bool), bool)
    return Array(_concrete_bool(_map(OPS.isfinite, x.a)), bool)


def isinf(x, /):
    x = asarray(x)
    if x.dt.kind != "f" or OPS.name == "R":
        return Array(_np.zeros(x.shape, dtype=builtins.bool), bool)
    return Array(_concrete_bool(_map(OPS.isinf, x.a)), bool)


def logical_and(a, b, /):
    a, b = asarray(a), asarray(b)
    return Array(_concrete_bool(_map(lambda p, q: simp(z3.And(_bterm(p), _bterm(q))), a.a, b.a)), bool)


def logical_or(a, b, /):
    a, b = asarray(a), asarray(b)
    return Array(_concrete_bool(_map(lambda p, q: simp(z3.Or(_bterm(p), _bterm(q))), a.a, b.a)), bool)


def logical_not(a, /):
    return ~asarray(a)


def add(a, b, /):
    return asarray(a) + b


def subtract(a, b, /):
    return asarray(a) - b


def multiply(a, b, /):
    return asarray(a) * b


def divide(a, b, /):
    if isinstance(a, Array):
        return a / b
    return _coerce(b).__rtruediv__(a) if isinstance(b, Array) else asarray(a) / b


def pow(a, b, /):  # noqa: A001
    return asarray(a) ** b


def remainder(a, b, /):
    return asarray(a) % b


def equal(a, b, /):
    return asarray(a) == b


def not_equal(a, b, /):
    return asarray(a) != b


def less(a, b, /):
    return asarray(a) < b


def less_equal(a, b, /):
    return asarray(a) <= b


def greater(a, b, /):
    return asarray(a) > b


def greater_equal(a, b, /):
    return asarray(a) >= b


# ---------------------------------------------------------------------------
# reductions


def _reduce(x, axis, keepdims, f):
    """Apply f(list of cells) -> cell along axis (None = all)."""
    x = asarray(x)
    a = x.a
    if axis is None:
        r = f(a.ravel().tolist())
        out = _obj(())
        out[()] = r
        if keepdims:
            out = out.reshape((1,) * a.ndim)
        return out
    if isinstance(axis, tuple):
        if len(axis) != 1:
            raise HarnessError("multi-axis reduction")
        axis = axis[0]
    axis = axis % a.ndim if a.ndim else 0
    moved = _np.moveaxis(a, axis, -1)
    out = _obj(moved.shape[:-1])
    for idx in _np.ndindex(*moved.shape[:-1]):
        out[idx] = f(moved[idx].tolist())
    if keepdims:
        out = _np.expand_dims(out, axis)
    return out


def _sum_cells(cs):
    if not cs:
        return OPS.zero()
    acc = cs[0]
    for c in cs[1:]:
        acc = OPS.add(acc, c)
    return acc


def sum(x, /, *, axis=None, dtype=None, keepdims=False):  # noqa: A001
    x = asarray(x)
    if x.dt.kind != "f" and x.a.dtype != object:
        return Array(_np.asarray(_np.sum(x.a.astype(_np.int64), axis=axis, keepdims=keepdims)), int64)
    if x.dt.kind == "b":
        # a count: integer-valued term in the Real sort, whatever the float sort is
        cells = _map(lambda b: z3.RealVal(1 if b else 0) if isinstance(b, (builtins.bool, _np.bool_)) else z3.If(b, z3.RealVal(1), z3.RealVal(0)), x.a)
        return Array(_reduce(Array(cells, int64), axis, keepdims, lambda cs: simp(z3.Sum(cs)) if cs else z3.RealVal(0)), int64)
    dt = _fdt(x) if x.dt.kind == "f" else int64
    return Array(_reduce(Array(_fcells(x), dt), axis, keepdims, _sum_cells), dt)


def prod(x, /, *, axis=None, dtype=None, keepdims=False):
    x = asarray(x)

    def f(cs):
        acc = OPS.const(1.0)
        for c in cs:
            acc = OPS.mul(acc, c)
        return acc

    return Array(_reduce(Array(_fcells(x), _fdt(x)), axis, keepdims, f), _fdt(x))


def mean(x, /, *, axis=None, keepdims=False):
    x = asarray(x)

    def f(cs):
        return OPS.div(_sum_cells(cs), OPS.const(float(len(cs))))

    return Array(_reduce(Array(_fcells(x), _fdt(x)), axis, keepdims, f), _fdt(x))


def var(x, /, *, axis=None, correction=0, keepdims=False):
    x = asarray(x)

    def f(cs):
        n = len(cs)
        m = OPS.div(_sum_cells(cs), OPS.const(float(n)))
        sq = [OPS.mul(OPS.sub(c, m), OPS.sub(c, m)) for c in cs]
        return OPS.div(_sum_cells(sq), OPS.const(float(n - correction)))

    return Array(_reduce(Array(_fcells(x), _fdt(x)), axis, keepdims, f), _fdt(x))


def std(x, /, *, axis=None, correction=0, keepdims=False):
    v = var(x, axis=axis, correction=correction, keepdims=keepdims)
    return sqrt(v)


def _extreme(cs, ge, gt):
    """Fork on the first index attaining the extreme value (DESIGN 2.2)."""
    cs = list(cs)
    if not cs:
        raise ValueError("zero-size array to reduction operation which has no identity")
    if len(cs) == 1:
        return cs[0]
    if builtins.all(not _is_term(c) or core.is_num(c) for c in cs) and OPS.name == "R":
        vals = [float(core.frac(c)) if _is_term(c) else float(c) for c in cs]
        k = vals.index(builtins.max(vals) if ge is OPS.ge else builtins.min(vals))
        return cs[k]
    conds = []
    for k, c in enumerate(cs):
        parts = []
        for j, d in enumerate(cs):
            if j < k:
                parts.append(gt(c, d))
            elif j > k:
                parts.append(ge(c, d))
        conds.append(simp(z3.And(*[_bterm(p) for p in parts])))
    if hasattr(OPS, "extreme_extra"):
        conds = OPS.extreme_extra(cs, conds)
    k = cur().choose(conds)
    if k >= len(cs):
        return OPS.extreme_result(cs, k)
    return cs[k]


def max(x, /, *, axis=None, keepdims=False):  # noqa: A001
    x = asarray(x)
    if x.dt.kind != "f" and x.a.dtype != object:
        return Array(_np.asarray(_np.max(x.a, axis=axis, keepdims=keepdims)), x.dt)
    return Array(_reduce(Array(_fcells(x), _fdt(x)), axis, keepdims, lambda cs: _extreme(cs, OPS.ge, OPS.gt)), _fdt(x))


def min(x, /, *, axis=None, keepdims=False):  # noqa: A001
    x = asarray(x)
    if x.dt.kind != "f" and x.a.dtype != object:
        return Array(_np.asarray(_np.min(x.a, axis=axis, keepdims=keepdims)), x.dt)
    return Array(_reduce(Array(_fcells(x), _fdt(x)), axis, keepdims, lambda cs: _extreme(cs, OPS.le, OPS.lt)), _fdt(x))


def any(x, /, *, axis=None, keepdims=False):  # noqa: A001
    x = asarray(x)
    if x.a.dtype != object:
        return Array(_np.asarray(_np.any(x.a, axis=axis)), bool)
    b = x if x.dt.kind == "b" else astype(x, bool)
    r = _reduce(b, axis, keepdims, lambda cs: simp(z3.Or(*[_bterm(c) for c in cs])) if cs else False)
    return Array(_concrete_bool(r), bool)


def all(x, /, *, axis=None, keepdims=False):  # noqa: A001
    x = asarray(x)
    if x.a.dtype != object:
        return Array(_np.asarray(_np.all(x.a, axis=axis)), bool)
    b = x if x.dt.kind == "b" else astype(x, bool)
    r = _reduce(b, axis, keepdims, lambda cs: simp(z3.And(*[_bterm(c) for c in cs])) if cs else True)
    return Array(_concrete_bool(r), bool)


def argmax(x, /, *, axis=None, keepdims=False):
    raise HarnessError("argmax is not modelled")


def isdtype(dt, kind):
    dt = dtype(dt)
    kinds = kind if isinstance(kind, tuple) else (kind,)
    for k in kinds:
        if isinstance(k, DType):
            if dt == k:
                return True
        elif k in ("real floating", "numeric") and dt.kind == "f":
            return True
        elif k in ("integral", "signed integer", "numeric") and dt.kind == "i":
            return True
        elif k == "bool" and dt.kind == "b":
            return True
    return False


def result_type(*xs):
    dts = [x.dt if isinstance(x, Array) else dtype(x) for x in xs if isinstance(x, (Array, DType))]
    out = dts[0]
    for d in dts[1:]:
        out = _promote(out, d)
    return out


def finfo(dt):
    return _np.finfo(_np.float32 if dtype(dt) == float32 else _np.float64)


# ---------------------------------------------------------------------------
# special functions (scipy's array-API dispatcher looks these up on xp.special)


class _Special:
    @staticmethod
    def erf(x):
        x = asarray(x)
        return Array(_map(lambda c: OPS.erf(c) if hasattr(OPS, "erf") else simp(core.ERF(c)), _fcells(x)), _fdt(x))

    @staticmethod
    def erfinv(x):
        x = asarray(x)
        return Array(_map(lambda c: OPS.erfinv(c) if hasattr(OPS, "erfinv") else simp(core.ERFINV(c)), _fcells(x)), _fdt(x))


special = _Special()


# ---------------------------------------------------------------------------
# numpy interop tables


def _np_mean(a, axis=None, **kw):
    return mean(asarray(a), axis=axis)


def _np_sum(a, axis=None, **kw):
    return sum(asarray(a), axis=axis)


_UFUNCS = {
    "add": lambda a, b: _coerce(a) + b if not isinstance(a, Array) else a + b,
    "subtract": lambda a, b: asarray(a) - b,
    "multiply": lambda a, b: asarray(a) * b,
    "true_divide": lambda a, b: asarray(a) / b,
    "divide": lambda a, b: asarray(a) / b,
    "remainder": lambda a, b: asarray(a) % b,
    "negative": lambda a: -a,
    "absolute": abs,
    "exp": exp,
    "log": log,
    "log1p": log1p,
    "sqrt": sqrt,
    "square": square,
    "isnan": isnan,
    "isfinite": isfinite,
    "isinf": isinf,
    "greater": lambda a, b: asarray(a) > b,
    "greater_equal": lambda a, b: asarray(a) >= b,
    "less": lambda a, b: asarray(a) < b,
    "less_equal": lambda a, b: asarray(a) <= b,
    "equal": lambda a, b: asarray(a) == b,
    "not_equal": lambda a, b: asarray(a) != b,
    "maximum": maximum,
    "minimum": minimum,
    "power": lambda a, b: asarray(a) ** b,
    "logical_and": logical_and,
    "logical_or": logical_or,
    "logical_not": logical_not,
}

_NPFUNCS = {
    "stack": lambda arrays, axis=0, **kw: stack(list(arrays), axis=axis),
    "concatenate": lambda arrays, axis=0, **kw: concatenate(list(arrays), axis=axis),
    "mean": _np_mean,
    "sum": _np_sum,
    "copy": lambda a, **kw: asarray(a).copy(),
    "atleast_1d": atleast_1d,
    "atleast_2d": atleast_2d,
    "where": where,
    "clip": lambda a, a_min=None, a_max=None, **kw: clip(a, a_min, a_max),
    "shape": lambda a: a.shape,
    "ndim": lambda a: a.ndim,
    "size": lambda a: a.size,
    "reshape": lambda a, shape, **kw: a.reshape(shape),
    "transpose": lambda a, axes=None: Array(_np.transpose(a.a, axes), a.dt),
    "isnan": isnan,
    "any": lambda a, axis=None, **kw: any(a, axis=axis),
    "all": lambda a, axis=None, **kw: all(a, axis=axis),
    "max": lambda a, axis=None, **kw: max(a, axis=axis),
    "amax": lambda a, axis=None, **kw: max(a, axis=axis),
    "var": lambda a, axis=None, **kw: var(a, axis=axis),
    "std": lambda a, axis=None, **kw: std(a, axis=axis),
}


# ---------------------------------------------------------------------------
# construction helpers for harnesses


def sym(name, shape=(), dt=None):
    """A fresh symbolic float array whose cells are named constants."""
    dt = dt or float64
    if isinstance(shape, int):
        shape = (shape,)
    out = _obj(shape)
    if shape == ():
        out[()] = OPS.var(name) if hasattr(OPS, "var") else z3.Real(name)
        return Array(out, dt)
    for idx in _np.ndindex(*shape):
        nm = name + "_" + "_".join(str(i) for i in idx)
        out[idx] = OPS.var(nm) if hasattr(OPS, "var") else z3.Real(nm)
    return Array(out, dt)


def sym_int(name, domain):
    """A symbolic integer (0-d int64 array) ranging over a finite domain."""
    c = cur()
    v = z3.Real(name)
    dom = sorted(int(d) for d in domain)
    c.add_assume(z3.Or(*[v == d for d in dom]))
    c.notes.setdefault("int_domains", {})[v.get_id()] = dom
    c.notes.setdefault("int_domain_terms", []).append(v)
    return Array(v, int64)


def term(x):
    """The z3 term of a 0-d array (or python number)."""
    if isinstance(x, Array):
        c = x._scalar()
        if not _is_term(c):
            if isinstance(c, (builtins.bool, _np.bool_)):
                return z3.BoolVal(builtins.bool(c))
            return OPS.const(float(c)) if x.dt.kind == "f" else z3.RealVal(int(c))
        return c
    if _is_term(x):
        return x
    if isinstance(x, (builtins.bool, _np.bool_)):
        return z3.BoolVal(builtins.bool(x))
    return OPS.const(float(x))


def terms(x):
    """Flat list of z3 terms of an array."""
    x = asarray(x)
    if x.dt.kind == "f":
        return x.a.ravel().tolist()
    if x.dt.kind == "b":
        return [_bterm(c) for c in x.a.ravel().tolist()]
    return [OPS.from_int(c) for c in x.a.ravel().tolist()]
