#!/bin/sh
# Build the overlay interpreter used by every check: a venv on top of /venv
# (which holds aspire's own dependencies) plus crosshair-tool, z3-solver and
# cvc5 from the offline wheelhouse.  Idempotent; ~15 s; no network.
set -e
cd "$(dirname "$0")"
V=.venv
if [ -x "$V/bin/python" ] && "$V/bin/python" -c "import z3, crosshair, numpy, h5py" 2>/dev/null; then
    exit 0
fi
rm -rf "$V"
/venv/bin/python -m venv "$V"
SP=$("$V/bin/python" -c "import sysconfig; print(sysconfig.get_paths()['purelib'])")
echo "import site; site.addsitedir('/venv/lib/python3.12/site-packages')" > "$SP/_overlay.pth"
PIP_NO_INDEX=1 "$V/bin/pip" install -q --no-index --find-links /opt/veriftools/wheels \
    crosshair-tool z3-solver cvc5 >/dev/null
"$V/bin/python" -c "import z3, crosshair, numpy, h5py; print('overlay ok', z3.get_version_string())"
