"""C19 harness for CrossHair: temporary overrides are fully restored on every
exit path.

`_run` drives the REAL Aspire.enable_pool / utils.PoolHandler and the REAL
Aspire.auto_checkpoint through a bounded, program-encoded nesting of the two
contexts, with an exception injected at a symbolic position, and returns True
iff after leaving every level the instance's log_likelihood, log_prior and
_checkpoint_defaults are the identical objects they were on entry to that
level (absent stays absent) and every pool was closed exactly once iff
close_pool.  CrossHair searches for arguments that make it return False."""

import logging
from typing import List

logging.disable(logging.CRITICAL)  # log records call time.time(), which CrossHair makes symbolic

from aspire.aspire import Aspire

MAX_DEPTH = 4


class _Boom(Exception):
    pass


class FakePool:
    def __init__(self):
        self.closed = 0
        self.joined = 0

    def map(self, fn, it):
        return list(map(fn, it))

    def close(self):
        self.closed += 1

    def join(self):
        self.joined += 1


def _ll(samples, map_fn=map):
    return 0.0


def _lp(samples, map_fn=map):
    return 0.0


_MISSING = object()


def _snapshot(a):
    d = getattr(a, "_checkpoint_defaults", _MISSING)
    content = dict(d) if isinstance(d, dict) else d
    return (a.log_likelihood, a.log_prior, d, content)


def _same(s1, s2):
    # the identical objects, and the defaults dictionary with unchanged content
    return s1[0] is s2[0] and s1[1] is s2[1] and s1[2] is s2[2] and s1[3] == s2[3]


def _nest(a, prog, level, exc_pos, close_pool, par_prior, pools, ok, same_path=False):
    """Enter level `level` of the program, recurse, leave; record violations."""
    if exc_pos == level:
        raise _Boom()
    if level >= len(prog):
        return
    before = _snapshot(a)
    kind = prog[level]
    try:
        if kind == 0:
            pool = FakePool()
            pools.append(pool)
            with a.enable_pool(pool, close_pool=close_pool, parallelize_prior=par_prior) as p:
                if p is not pool:
                    ok.append(False)
                if a.log_likelihood is before[0]:
                    ok.append(False)  # the override must be in force inside
                if par_prior and a.log_prior is before[1]:
                    ok.append(False)
                if (not par_prior) and a.log_prior is not before[1]:
                    ok.append(False)
                _nest(a, prog, level + 1, exc_pos, close_pool, par_prior, pools, ok, same_path)
        else:
            path = "outer.h5" if same_path else "file%d.h5" % level
            with a.auto_checkpoint(path, every=level + 1) as inst:
                if inst is not a:
                    ok.append(False)
                d = getattr(a, "_checkpoint_defaults", None)
                if not (isinstance(d, dict) and d.get("path") == path and d.get("every") == level + 1):
                    ok.append(False)
                _nest(a, prog, level + 1, exc_pos, close_pool, par_prior, pools, ok, same_path)
    finally:
        after = _snapshot(a)
        if not _same(before, after):
            ok.append(False)


def _drive(prog: List[int], exc_pos: int, close_pool: bool, par_prior: bool, preset_defaults: bool, same_path: bool = False) -> bool:
    a = Aspire(log_likelihood=_ll, log_prior=_lp, dims=1)
    if preset_defaults:
        a._checkpoint_defaults = {"path": "outer.h5", "every": 7, "save_config": True, "save_flow": True, "saved_config": False, "saved_flow": False}
    start = _snapshot(a)
    pools: List[FakePool] = []
    ok: List[bool] = []
    raised = False
    try:
        _nest(a, prog, 0, exc_pos, close_pool, par_prior, pools, ok, same_path)
    except _Boom:
        raised = True
    if raised != (0 <= exc_pos <= len(prog)):
        return False
    if not _same(start, _snapshot(a)):
        return False
    for p in pools:
        want = 1 if close_pool else 0
        if p.closed != want or p.joined != want:
            return False
    return len(ok) == 0


def _run(prog: List[int], exc_pos: int, close_pool: bool, par_prior: bool, preset_defaults: bool, same_path: bool) -> bool:
    """
    pre: len(prog) <= 3
    pre: all(0 <= k <= 1 for k in prog)
    pre: -1 <= exc_pos <= 3
    post: _ == True
    """
    return _drive(prog, exc_pos, close_pool, par_prior, preset_defaults, same_path)


def _run_deep(prog: List[int], exc_pos: int, close_pool: bool, par_prior: bool, preset_defaults: bool, same_path: bool) -> bool:
    """
    pre: len(prog) == 4
    pre: all(0 <= k <= 1 for k in prog)
    pre: -1 <= exc_pos <= 4
    post: _ == True
    """
    return _drive(prog, exc_pos, close_pool, par_prior, preset_defaults, same_path)


def _twin(prog: List[int], exc_pos: int, close_pool: bool, par_prior: bool, preset_defaults: bool) -> bool:
    """
    Reachability twin: the same harness with an unsatisfiable postcondition
    must be refuted (otherwise the preconditions are vacuous).

    pre: len(prog) <= 3
    pre: all(0 <= k <= 1 for k in prog)
    pre: -1 <= exc_pos <= 3
    post: _ == False
    """
    return _drive(prog, exc_pos, close_pool, par_prior, preset_defaults)
