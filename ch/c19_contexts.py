"""C19 harness for CrossHair: temporary overrides are fully restored on every
exit path.

`_run` drives the REAL Aspire.enable_pool / utils.PoolHandler and the REAL
Aspire.auto_checkpoint through a bounded, program-encoded nesting of the two
contexts, with an exception injected at a symbolic position, and returns True
iff after leaving every level the instance's log_likelihood, log_prior and
_checkpoint_defaults are the identical objects they were on entry to that
level (absent stays absent) and every pool was closed exactly once iff
close_pool.  CrossHair searches for arguments that make it return False."""

import logging
from typing import List

logging.disable(logging.CRITICAL)  # log records call time.time(), which CrossHair makes symbolic

from aspire.aspire import Aspire

MAX_DEPTH = 4


class _Boom(Exception):
    pass


class FakePool:
    def __init__(self, fault=0):
        self.closed = 0
        self.joined = 0
        self.fault = fault  # 1: close() raises, 2: join() raises (e.g. interrupted while waiting)

    def map(self, fn, it):
        return list(map(fn, it))

    def close(self):
        self.closed += 1
        if self.fault == 1:
            raise _Boom()

    def join(self):
        self.joined += 1
        if self.fault == 2:
            raise _Boom()


def _ll(samples, map_fn=map):
    return 0.0


def _lp(samples, map_fn=map):
    return 0.0


_MISSING = object()


def _snapshot(a):
    d = getattr(a, "_checkpoint_defaults", _MISSING)
    content = dict(d) if isinstance(d, dict) else d
    return (a.log_likelihood, a.log_prior, d, content)


def _same(s1, s2):
    # the identical objects, and the defaults dictionary with unchanged content
    return s1[0] is s2[0] and s1[1] is s2[1] and s1[2] is s2[2] and s1[3] == s2[3]


def _nest(a, prog, level, exc_pos, close_pool, par_prior, pools, ok, same_path=False, fault_level=-1, fault_kind=0, handles=None):
    """Enter level `level` of the program, recurse, leave; record violations."""
    if exc_pos == level:
        raise _Boom()
    if level >= len(prog):
        return
    before = _snapshot(a)
    kind = prog[level]
    try:
        if kind == 0:
            pool = FakePool(fault_kind if level == fault_level else 0)
            pools.append(pool)
            with a.enable_pool(pool, close_pool=close_pool, parallelize_prior=par_prior) as p:
                if p is not pool:
                    ok.append(False)
                if a.log_likelihood is before[0]:
                    ok.append(False)  # the override must be in force inside
                if par_prior and a.log_prior is before[1]:
                    ok.append(False)
                if (not par_prior) and a.log_prior is not before[1]:
                    ok.append(False)
                _nest(a, prog, level + 1, exc_pos, close_pool, par_prior, pools, ok, same_path, fault_level, fault_kind, handles)
        else:
            path = "outer.h5" if same_path else "file%d.h5" % level
            # a context-manager handle may be created long before it is entered
            cm = handles[level] if handles is not None else a.auto_checkpoint(path, every=level + 1)
            with cm as inst:
                if inst is not a:
                    ok.append(False)
                d = getattr(a, "_checkpoint_defaults", None)
                if not (isinstance(d, dict) and d.get("path") == path and d.get("every") == level + 1):
                    ok.append(False)
                _nest(a, prog, level + 1, exc_pos, close_pool, par_prior, pools, ok, same_path, fault_level, fault_kind, handles)
    finally:
        after = _snapshot(a)
        if not _same(before, after):
            ok.append(False)


def _drive(prog: List[int], exc_pos: int, close_pool: bool, par_prior: bool, preset_defaults: bool, same_path: bool = False) -> bool:
    a = Aspire(log_likelihood=_ll, log_prior=_lp, dims=1)
    if preset_defaults:
        a._checkpoint_defaults = {"path": "outer.h5", "every": 7, "save_config": True, "save_flow": True, "saved_config": False, "saved_flow": False}
    start = _snapshot(a)
    pools: List[FakePool] = []
    ok: List[bool] = []
    raised = False
    try:
        _nest(a, prog, 0, exc_pos, close_pool, par_prior, pools, ok, same_path)
    except _Boom:
        raised = True
    if raised != (0 <= exc_pos <= len(prog)):
        return False
    if not _same(start, _snapshot(a)):
        return False
    for p in pools:
        want = 1 if close_pool else 0
        if p.closed != want or p.joined != want:
            return False
    return len(ok) == 0


def _run(prog: List[int], exc_pos: int, close_pool: bool, par_prior: bool, preset_defaults: bool, same_path: bool) -> bool:
    """
    pre: len(prog) <= 3
    pre: all(0 <= k <= 1 for k in prog)
    pre: -1 <= exc_pos <= 3
    post: _ == True
    """
    return _drive(prog, exc_pos, close_pool, par_prior, preset_defaults, same_path)


def _run_deep(prog: List[int], exc_pos: int, close_pool: bool, par_prior: bool, preset_defaults: bool, same_path: bool) -> bool:
    """
    pre: len(prog) == 4
    pre: all(0 <= k <= 1 for k in prog)
    pre: -1 <= exc_pos <= 4
    post: _ == True
    """
    return _drive(prog, exc_pos, close_pool, par_prior, preset_defaults, same_path)


def _twin(prog: List[int], exc_pos: int, close_pool: bool, par_prior: bool, preset_defaults: bool) -> bool:
    """
    Reachability twin: the same harness with an unsatisfiable postcondition
    must be refuted (otherwise the preconditions are vacuous).

    pre: len(prog) <= 3
    pre: all(0 <= k <= 1 for k in prog)
    pre: -1 <= exc_pos <= 3
    post: _ == False
    """
    return _drive(prog, exc_pos, close_pool, par_prior, preset_defaults)


def _drive_fault(prog: List[int], exc_pos: int, close_pool: bool, par_prior: bool, fault_level: int, fault_join: bool) -> bool:
    """A pool whose shutdown raises (close() or join(), e.g. interrupted while
    waiting for the workers): the overrides must be restored all the same."""
    a = Aspire(log_likelihood=_ll, log_prior=_lp, dims=1)
    start = _snapshot(a)
    pools: List[FakePool] = []
    ok: List[bool] = []
    try:
        _nest(a, prog, 0, exc_pos, close_pool, par_prior, pools, ok, False, fault_level, 2 if fault_join else 1)
    except _Boom:
        pass
    if not _same(start, _snapshot(a)):
        return False
    for p in pools:
        if p.closed > 1 or p.joined > 1 or ((not close_pool) and (p.closed or p.joined)):
            return False
    return len(ok) == 0


def _run_fault(prog: List[int], exc_pos: int, close_pool: bool, par_prior: bool, fault_level: int, fault_join: bool) -> bool:
    """
    pre: len(prog) <= 2
    pre: all(0 <= k <= 1 for k in prog)
    pre: -1 <= exc_pos <= 2
    pre: 0 <= fault_level <= 1
    post: _ == True
    """
    return _drive_fault(prog, exc_pos, close_pool, par_prior, fault_level, fault_join)


def _drive_handles(prog: List[int], exc_pos: int, preset_defaults: bool, same_path: bool, inside_outer: bool) -> bool:
    """The auto_checkpoint handles of all levels are created up front (or, with
    inside_outer, inside a context that has ended by the time they are entered)
    and entered later: what a level restores on exit is what was in force when
    it was ENTERED."""
    a = Aspire(log_likelihood=_ll, log_prior=_lp, dims=1)
    if preset_defaults:
        a._checkpoint_defaults = {"path": "outer.h5", "every": 7, "save_config": True, "save_flow": True, "saved_config": False, "saved_flow": False}
    start = _snapshot(a)

    def make():
        return [a.auto_checkpoint("outer.h5" if same_path else "file%d.h5" % lv, every=lv + 1) if k == 1 else None for lv, k in enumerate(prog)]

    if inside_outer:
        with a.auto_checkpoint("gone.h5", every=9):
            handles = make()
    else:
        handles = make()
    if not _same(start, _snapshot(a)):
        return False
    pools: List[FakePool] = []
    ok: List[bool] = []
    raised = False
    try:
        _nest(a, prog, 0, exc_pos, True, False, pools, ok, same_path, -1, 0, handles)
    except _Boom:
        raised = True
    if raised != (0 <= exc_pos <= len(prog)):
        return False
    if not _same(start, _snapshot(a)):
        return False
    return len(ok) == 0


def _run_handles(prog: List[int], exc_pos: int, preset_defaults: bool, same_path: bool, inside_outer: bool) -> bool:
    """
    pre: len(prog) <= 3
    pre: all(0 <= k <= 1 for k in prog)
    pre: -1 <= exc_pos <= 3
    post: _ == True
    """
    return _drive_handles(prog, exc_pos, preset_defaults, same_path, inside_outer)
