"""C14 harness for CrossHair: a checkpoint file stays self-consistent under any
sequence of operations.

`_drive` runs a bounded, program-encoded history of operations on ONE file
through the REAL Aspire.fit, Aspire.sample_posterior, Aspire.auto_checkpoint,
Aspire.resume_from_file / _build_aspire_from_file, save_config, config_dict,
save_flow and load_flow, over dict-backed fakes of the HDF5 file, of a flow
(every fit gives it a new identity tag; save writes the tag) and of a sampler
(writes a checkpoint tagged with the identity of the flow it was constructed
with).  After every operation: if the file holds a checkpoint then the stored
flow is the one the checkpoint's particles were weighted under and the stored
configuration names the sampler that wrote it; and a resumed sampler never
gets a population weighted under a different proposal.

Operation codes
  0 fit()                       1 fit(path)              2 fit(path, overwrite=True)
  3 sample(importance, path)    4 sample(smc, path)      5 sample(smc)
  6 with auto_checkpoint(path): fit(); sample(smc)
  7 resume_from_file(path) then sample()   (skipped if the file cannot be resumed)
  8 with auto_checkpoint(path): sample(smc); fit(); sample(smc)
  9 with auto_checkpoint(path): sample(smc); fit(overwrite=True); sample(smc)
 10 sample(smc, path, resume_from=None)   (an explicit "start afresh", also on a resumed instance)
 11 resume_from_file(path); fit(); sample(smc, path, resume_from=None)   (skipped if the file cannot be resumed)
"""

import json
import os
import pickle
import logging
from typing import List

logging.disable(logging.CRITICAL)  # log records call time.time(), which CrossHair makes symbolic

import aspire.aspire as A
from aspire.aspire import Aspire

PATH = "run.h5"

# ---------------------------------------------------------------------------
# fakes

FILES = {}
STATE = {"tag": 0, "mixed_resume": False}


class _DS:
    def __init__(self, blob):
        self.blob = blob

    def __getitem__(self, key):
        return self

    def tobytes(self):
        return self.blob


class FakeFile:
    """dict-backed stand-in for utils.AspireFile (h5py.File)."""

    def __init__(self, path, mode="r"):
        self.path = str(path)
        self.mode = mode
        if mode != "r" or self.path in FILES:
            self.data = FILES.setdefault(self.path, {})
        else:
            raise FileNotFoundError(self.path)

    def __enter__(self):
        return self

    def __exit__(self, *a):
        return False

    def __contains__(self, k):
        return k in self.data

    def __delitem__(self, k):
        del self.data[k]

    def __getitem__(self, k):
        v = self.data[k]
        if k == "checkpoint":
            return {"state": _DS(v)}
        return v


def _fake_save(h5_file, path, dictionary):
    if path in h5_file.data:
        raise ValueError("Unable to create group (name already exists)")
    h5_file.data[path] = json.loads(json.dumps(dictionary, default=str))


def _fake_load(h5_file, path):
    return json.loads(json.dumps(h5_file.data[path]))


class FakeXp:
    __name__ = "numpy"


class FakeData:
    def __init__(self):
        self.x = [[0.0]]
        self.xp = FakeXp()
        self.parameters = ["a"]


class FakeFlow:
    def __init__(self, tag=0, **kw):
        self.tag = tag

    def fit(self, x, **kw):
        STATE["tag"] += 1
        self.tag = STATE["tag"]
        return None

    def save(self, h5_file, path="flow"):
        if path in h5_file.data:
            raise ValueError("Unable to create group (name already exists)")
        h5_file.data[path] = self.tag

    @classmethod
    def load(cls, h5_file, path="flow"):
        return cls(tag=h5_file.data[path])


class FakeSamples:
    parameters = None

    def __len__(self):
        return 1


class FakeImportance:
    def __init__(self, log_likelihood, log_prior, dims, prior_flow, xp, dtype=None, parameters=None, preconditioning_transform=None):
        self.prior_flow = prior_flow
        self.history = None
        self.n_likelihood_evaluations = 0

    def sample(self, n_samples):
        return FakeSamples()

    def config_dict(self, **kw):
        return {"sampler_class": "FakeImportance"}


class FakeSMC(FakeImportance):
    def sample(self, n_samples, checkpoint_file_path=None, checkpoint_every=None, resume_from=None, **kw):
        if resume_from is not None:
            st = pickle.loads(resume_from)
            if st["flow_tag"] != self.prior_flow.tag:
                STATE["mixed_resume"] = True
        if checkpoint_file_path is not None:
            with FakeFile(checkpoint_file_path, "a") as f:
                f.data["checkpoint"] = pickle.dumps({"sampler": "FakeSMC", "flow_tag": self.prior_flow.tag, "samples": None})
        return FakeSamples()

    def config_dict(self, **kw):
        return {"sampler_class": "FakeSMC"}


_SAMPLERS = {"importance": FakeImportance, "smc": FakeSMC}

# injection (module globals of aspire.aspire; the real methods are untouched)
A.AspireFile = FakeFile
A.recursively_save_to_h5_file = _fake_save
A.load_from_h5_file = _fake_load
A.get_flow_wrapper = lambda backend="zuko", flow_matching=False: (FakeFlow, None)
Aspire.get_sampler_class = lambda self, sampler_type: _SAMPLERS[sampler_type]


def _ll(s):
    return 0.0


def _lp(s):
    return 0.0


# ---------------------------------------------------------------------------
# the invariant and the known-finding regions


def _violation():
    """'' if the file is self-consistent, else which clause fails:
    'F' the stored proposal is not the one the checkpoint was weighted under,
    'C' the stored configuration does not name the sampler that wrote it."""
    f = FILES.get(PATH)
    if not f or "checkpoint" not in f:
        return ""
    ck = pickle.loads(f["checkpoint"])
    if "flow" not in f or f["flow"] != ck["flow_tag"]:
        return "F"
    cfg = f.get("aspire_config")
    if not cfg or cfg.get("sampler_type") != "smc":
        return "C"
    return ""


def _open_findings():
    p = os.path.join(os.path.dirname(os.path.dirname(os.path.abspath(__file__))), "known_findings.json")
    try:
        return {f["id"] for f in json.load(open(p))["findings"] if f["property"] == "C14" and f.get("status") == "open"}
    except Exception:  # noqa: BLE001
        return set()


OPEN = _open_findings()


def _region(op, before, resumed, clause):
    """Which known-finding region a violation arising at `op` falls into.

    D8a: a sampling call (any of the codes 3-8; on an instance returned by
         resume_from_file every sampling call targets the file) that found a
         /flow already in the file and left it there although the instance's
         proposal had been refitted since.
    D8b: fit(path, overwrite=True) that replaced /flow while an older
         /checkpoint stayed in the file.
    D8c: sampling with a sampler that does not checkpoint (importance) on a
         file that holds a checkpoint: /aspire_config is rewritten with the
         new sampler_type while the old /checkpoint stays.
    D8d: an instance obtained from resume_from_file keeps checkpointing into
         the file but never rewrites /aspire_config (save_config=False), so a
         checkpoint written by a sampler other than the saved one sits next
         to a configuration that does not name it.
    D8e: an instance obtained from resume_from_file resumes from the checkpoint
         bytes captured at construction on EVERY later sample_posterior call,
         also after it has been refitted: the old population is then continued
         under the new proposal."""
    had_flow, had_ckpt = before
    if clause == "C":
        if (resumed and op in (4, 5, 6, 8, 9, 10)) or op == 11:
            return "C14-D8d"
        if op == 3 and had_ckpt:
            return "C14-D8c"
        return None
    if clause == "M":
        # the resumed sampler was handed a population weighted under another proposal
        if resumed and op in (0, 1, 2, 3, 4, 5, 6, 8, 9):
            return "C14-D8e"
        return None
    if clause == "F":
        if op == 8 or (op in (3, 4, 5, 6, 7, 10, 11) and had_flow):
            return "C14-D8a"
        if op == 2 and had_ckpt:
            return "C14-D8b"
    return None


def _apply(a, op):
    d = FakeData()
    if op == 0:
        a.fit(d)
    elif op == 1:
        a.fit(d, checkpoint_path=PATH)
    elif op == 2:
        a.fit(d, checkpoint_path=PATH, overwrite=True)
    elif op == 3:
        a.sample_posterior(n_samples=1, sampler="importance", checkpoint_path=PATH, preconditioning="none")
    elif op == 4:
        a.sample_posterior(n_samples=1, sampler="smc", checkpoint_path=PATH, preconditioning="none")
    elif op == 5:
        a.sample_posterior(n_samples=1, sampler="smc", preconditioning="none")
    elif op == 6:
        with a.auto_checkpoint(PATH):
            a.fit(d)
            a.sample_posterior(n_samples=1, sampler="smc", preconditioning="none")
    elif op == 7:
        try:
            b = Aspire.resume_from_file(PATH, log_likelihood=_ll, log_prior=_lp)
        except (ValueError, FileNotFoundError, KeyError):
            return a
        b.sample_posterior(n_samples=1, preconditioning="none")
        return b
    elif op == 8:
        with a.auto_checkpoint(PATH):
            a.sample_posterior(n_samples=1, sampler="smc", preconditioning="none")
            a.fit(d)
            a.sample_posterior(n_samples=1, sampler="smc", preconditioning="none")
    elif op == 9:
        with a.auto_checkpoint(PATH):
            a.sample_posterior(n_samples=1, sampler="smc", preconditioning="none")
            a.fit(d, overwrite=True)
            a.sample_posterior(n_samples=1, sampler="smc", preconditioning="none")
    elif op == 10:
        a.sample_posterior(n_samples=1, sampler="smc", checkpoint_path=PATH, preconditioning="none", resume_from=None)
    elif op == 11:
        try:
            b = Aspire.resume_from_file(PATH, log_likelihood=_ll, log_prior=_lp)
        except (ValueError, FileNotFoundError, KeyError):
            return a
        b.fit(d)
        b.sample_posterior(n_samples=1, sampler="smc", checkpoint_path=PATH, preconditioning="none", resume_from=None)
        return b
    return a


def _drive(prog: List[int], exclude_known: bool) -> bool:
    FILES.clear()
    STATE["tag"] = 0
    STATE["mixed_resume"] = False
    a = Aspire(log_likelihood=_ll, log_prior=_lp, dims=1, parameters=["a"], flow=FakeFlow(0))
    for op in prog:
        f = FILES.get(PATH, {})
        before = ("flow" in f, "checkpoint" in f)
        resumed = hasattr(a, "_resume_sampler_config") or (getattr(a, "_checkpoint_defaults", None) or {}).get("save_config") is False
        a = _apply(a, op)
        clause = ("M" if STATE["mixed_resume"] else "") or _violation()
        if clause:
            if exclude_known and _region(op, before, resumed, clause) in OPEN:
                return True
            return False
    return True


# One condition per first operation keeps each CrossHair search exhaustible
# (9^k paths per condition); together they cover all programs up to the bound.
# The empty program is trivially consistent.

def _run_f0(rest: List[int]) -> bool:
    """
    pre: len(rest) <= 2
    pre: all(0 <= k <= 11 for k in rest)
    post: _ == True
    """
    return _drive([0] + rest, True)


def _run4_f0(rest: List[int]) -> bool:
    """
    pre: len(rest) == 3
    pre: all(0 <= k <= 11 for k in rest)
    post: _ == True
    """
    return _drive([0] + rest, True)


def _run_f1(rest: List[int]) -> bool:
    """
    pre: len(rest) <= 2
    pre: all(0 <= k <= 11 for k in rest)
    post: _ == True
    """
    return _drive([1] + rest, True)


def _run4_f1(rest: List[int]) -> bool:
    """
    pre: len(rest) == 3
    pre: all(0 <= k <= 11 for k in rest)
    post: _ == True
    """
    return _drive([1] + rest, True)


def _run_f2(rest: List[int]) -> bool:
    """
    pre: len(rest) <= 2
    pre: all(0 <= k <= 11 for k in rest)
    post: _ == True
    """
    return _drive([2] + rest, True)


def _run4_f2(rest: List[int]) -> bool:
    """
    pre: len(rest) == 3
    pre: all(0 <= k <= 11 for k in rest)
    post: _ == True
    """
    return _drive([2] + rest, True)


def _run_f3(rest: List[int]) -> bool:
    """
    pre: len(rest) <= 2
    pre: all(0 <= k <= 11 for k in rest)
    post: _ == True
    """
    return _drive([3] + rest, True)


def _run4_f3(rest: List[int]) -> bool:
    """
    pre: len(rest) == 3
    pre: all(0 <= k <= 11 for k in rest)
    post: _ == True
    """
    return _drive([3] + rest, True)


def _run_f4(rest: List[int]) -> bool:
    """
    pre: len(rest) <= 2
    pre: all(0 <= k <= 11 for k in rest)
    post: _ == True
    """
    return _drive([4] + rest, True)


def _run4_f4(rest: List[int]) -> bool:
    """
    pre: len(rest) == 3
    pre: all(0 <= k <= 11 for k in rest)
    post: _ == True
    """
    return _drive([4] + rest, True)


def _run_f5(rest: List[int]) -> bool:
    """
    pre: len(rest) <= 2
    pre: all(0 <= k <= 11 for k in rest)
    post: _ == True
    """
    return _drive([5] + rest, True)


def _run4_f5(rest: List[int]) -> bool:
    """
    pre: len(rest) == 3
    pre: all(0 <= k <= 11 for k in rest)
    post: _ == True
    """
    return _drive([5] + rest, True)


def _run_f6(rest: List[int]) -> bool:
    """
    pre: len(rest) <= 2
    pre: all(0 <= k <= 11 for k in rest)
    post: _ == True
    """
    return _drive([6] + rest, True)


def _run4_f6(rest: List[int]) -> bool:
    """
    pre: len(rest) == 3
    pre: all(0 <= k <= 11 for k in rest)
    post: _ == True
    """
    return _drive([6] + rest, True)


def _run_f7(rest: List[int]) -> bool:
    """
    pre: len(rest) <= 2
    pre: all(0 <= k <= 11 for k in rest)
    post: _ == True
    """
    return _drive([7] + rest, True)


def _run4_f7(rest: List[int]) -> bool:
    """
    pre: len(rest) == 3
    pre: all(0 <= k <= 11 for k in rest)
    post: _ == True
    """
    return _drive([7] + rest, True)


def _run_f8(rest: List[int]) -> bool:
    """
    pre: len(rest) <= 2
    pre: all(0 <= k <= 11 for k in rest)
    post: _ == True
    """
    return _drive([8] + rest, True)


def _run4_f8(rest: List[int]) -> bool:
    """
    pre: len(rest) == 3
    pre: all(0 <= k <= 11 for k in rest)
    post: _ == True
    """
    return _drive([8] + rest, True)


def _run_f9(rest: List[int]) -> bool:
    """
    pre: len(rest) <= 2
    pre: all(0 <= k <= 11 for k in rest)
    post: _ == True
    """
    return _drive([9] + rest, True)


def _run4_f9(rest: List[int]) -> bool:
    """
    pre: len(rest) == 3
    pre: all(0 <= k <= 11 for k in rest)
    post: _ == True
    """
    return _drive([9] + rest, True)


def _run_f10(rest: List[int]) -> bool:
    """
    pre: len(rest) <= 2
    pre: all(0 <= k <= 11 for k in rest)
    post: _ == True
    """
    return _drive([10] + rest, True)


def _run4_f10(rest: List[int]) -> bool:
    """
    pre: len(rest) == 3
    pre: all(0 <= k <= 11 for k in rest)
    post: _ == True
    """
    return _drive([10] + rest, True)


def _run_f11(rest: List[int]) -> bool:
    """
    pre: len(rest) <= 2
    pre: all(0 <= k <= 11 for k in rest)
    post: _ == True
    """
    return _drive([11] + rest, True)


def _run4_f11(rest: List[int]) -> bool:
    """
    pre: len(rest) == 3
    pre: all(0 <= k <= 11 for k in rest)
    post: _ == True
    """
    return _drive([11] + rest, True)


def _raw(prog: List[int]) -> bool:
    """The same without the known-finding exclusion (used to confirm that the
    listed findings still reproduce)."""
    return _drive(prog, False)


def _twin(prog: List[int]) -> bool:
    """
    Reachability twin (must be refuted).

    pre: len(prog) <= 3
    pre: all(0 <= k <= 11 for k in prog)
    post: _ == False
    """
    return _drive(prog, True)
