"""Runner for the CrossHair (engine CH) checks: one `crosshair check` process
per condition, verdict parsing, replay of counterexamples in plain CPython,
known findings, evidence.

Only "Confirmed over all paths" counts as discharged; "Not confirmed" /
"Unable to meet precondition" / a timeout are inconclusive (exit 2); the
reachability twin of every harness must be refuted."""

from __future__ import annotations

import ast
import concurrent.futures as cf
import hashlib
import importlib
import json
import os
import re
import subprocess
import sys
import time

VERIF = os.path.dirname(os.path.dirname(os.path.abspath(__file__)))
REPO = os.environ.get("ASPIRE_REPO", "/repo")


def _line_of(path, fn):
    tree = ast.parse(open(path).read())
    for node in tree.body:
        if isinstance(node, ast.FunctionDef) and node.name == fn:
            return node.body[0].lineno  # a line inside the def
    raise SystemExit(f"HARNESS-ERROR missing harness function {fn} in {path}")


def _run_condition(args):
    path, fn, timeout, verbose = args
    line = _line_of(path, fn)
    env = dict(os.environ)
    env["PYTHONPATH"] = f"{VERIF}:{os.path.join(REPO, 'src')}"
    env["SCIPY_ARRAY_API"] = "1"
    env["PYTHONDONTWRITEBYTECODE"] = "1"
    cmd = [
        os.path.join(VERIF, ".venv", "bin", "crosshair"),
        "check",
        "--report_all",
        "--per_condition_timeout",
        str(timeout),
        "--per_path_timeout",
        str(max(10, timeout // 4)),
    ]
    if verbose:
        cmd.append("-v")
    cmd.append(f"{path}:{line}")
    t0 = time.time()
    try:
        p = subprocess.run(cmd, env=env, capture_output=True, text=True, timeout=timeout * 3 + 120, cwd=VERIF)
        out, err = p.stdout, p.stderr
    except subprocess.TimeoutExpired as e:
        out, err = (e.stdout or ""), "process timeout"
        if isinstance(out, bytes):
            out = out.decode(errors="replace")
    wall = time.time() - t0
    text = out + "\n" + (err if isinstance(err, str) else "")
    verdict = "unknown"
    detail = ""
    for ln in out.splitlines():
        if "Confirmed over all paths" in ln:
            verdict = "confirmed"
        elif ": error:" in ln:
            verdict = "refuted"
            detail = ln.split(": error:", 1)[1].strip()
        elif "Not confirmed" in ln:
            verdict = "not_confirmed"
        elif "Unable to meet precondition" in ln:
            verdict = "no_precondition"
    return {
        "fn": fn,
        "verdict": verdict,
        "detail": detail,
        "wall": wall,
        "paths_confirmed": len(re.findall(r"Postcondition confirmed", text)),
        "smt_decisions": len(re.findall(r"SMT chose", text)),
        "iterations": len(re.findall(r"Iteration complete|iteration", text)),
        "raw": out[-2000:],
    }


_CALL = re.compile(r"when calling (\w+)\((.*)\)$")


def replay_call(module, detail):
    """Re-run the counterexample CrossHair printed, in plain CPython."""
    detail = re.sub(r" \(which (returns|raises) .*\)$", "", detail.strip())
    m = _CALL.search(detail)
    if not m:
        return None, None, "cannot parse the counterexample"
    fn, args = m.group(1), m.group(2)
    mod = importlib.import_module(module)
    try:
        val = eval(f"{fn}({args})", vars(mod))
    except Exception as e:  # noqa: BLE001
        return fn, args, f"raised {type(e).__name__}: {e}"
    return fn, args, val


def main(pid, module, conditions, tier, explain, finding_of=None, stubs=(), outside=(), bounds=None, known_probes=None):
    """conditions: list of dict(fn, expect='confirm'|'refute', timeout, tiers)."""
    sys.path.insert(0, VERIF)
    sys.path.insert(0, os.path.join(REPO, "src"))
    os.environ.setdefault("SCIPY_ARRAY_API", "1")
    import logging

    logging.disable(logging.CRITICAL)
    seed = int(os.environ.get("VERIF_SEED", "0"))
    path = os.path.join(VERIF, *module.split(".")) + ".py"
    conds = [c for c in conditions if tier in c.get("tiers", ("quick", "thorough"))]
    t0 = time.time()
    with cf.ThreadPoolExecutor(max_workers=min(12, len(conds))) as ex:
        results = list(ex.map(_run_condition, [(path, c["fn"], c["timeout"], True) for c in conds]))
    findings = {}
    kf = os.path.join(VERIF, "known_findings.json")
    if os.path.exists(kf):
        findings = {f["id"]: f for f in json.load(open(kf))["findings"] if f["property"] == pid}
    known_hit = []
    mod = importlib.import_module(module)
    for fid, fn, args in known_probes or []:
        f = findings.get(fid)
        if not f or f.get("status") != "open":
            continue
        try:
            val = getattr(mod, fn)(*args)
        except Exception:  # noqa: BLE001
            val = None
        if val is False:
            known_hit.append(fid)
            print(f"KNOWN-FINDING: property={pid} {f['what']}")
    code = 0
    violations, problems, samples = [], [], []
    discharged = 0
    for c, r in zip(conds, results):
        samples.append({"condition": r["fn"], "expected": c["expect"], "verdict": r["verdict"], "counterexample": r["detail"], "wall_s": round(r["wall"], 1)})
        if c["expect"] == "refute":
            if r["verdict"] != "refuted":
                problems.append(f"reachability twin {r['fn']} was not refuted ({r['verdict']}): the harness may be vacuous")
            continue
        if r["verdict"] == "confirmed":
            discharged += 1
            continue
        if r["verdict"] == "refuted":
            fn, args, val = replay_call(module, r["detail"])
            if val is False:
                fid = finding_of(fn, args) if finding_of else None
                if fid is not None and findings.get(fid, {}).get("status") == "open":
                    problems.append(f"{r['fn']}: counterexample {args} falls into known finding {fid}, which the harness should have excluded")
                    continue
                key = hashlib.sha1(f"{fn}({args})".encode()).hexdigest()[:12]
                rdir = os.environ.get("VERIF_REPLAY_DIR") or os.path.join(VERIF, "replays")
                os.makedirs(rdir, exist_ok=True)
                rp = os.path.join(rdir, f"{pid}-{key}.json")
                json.dump({"module": module, "call": f"{fn}({args})"}, open(rp, "w"))
                violations.append((r["fn"], f"{fn}({args}) returns False on the real code", rp))
            else:
                problems.append(f"{r['fn']}: counterexample did not reproduce in plain CPython ({val!r}): {r['detail']}")
        else:
            problems.append(f"{r['fn']}: inconclusive ({r['verdict']}) after {r['wall']:.0f}s: {r['raw'][-300:]}")
    wall = time.time() - t0
    n_obl = sum(1 for c in conds if c["expect"] == "confirm")
    ev = {
        "property_id": pid,
        "tier": tier,
        "seed": seed,
        "level": "model_checking",
        "coverage": {
            "states": max(1, sum(r["paths_confirmed"] for r in results)),
            "transitions": max(1, sum(r["smt_decisions"] for r in results)),
            "traces_validated_against_impl": sum(1 for c, r in zip(conds, results) if r["verdict"] == "refuted") + len(known_hit),
            "samples": samples,
            "obligations": n_obl,
            "discharged": discharged,
            "functions_encoded": explain.get("functions", []),
            "bounds": bounds or {},
            "solvers": ["CrossHair 0.0.110 (z3)"],
            "stubs": list(stubs),
            "outside_claim": list(outside),
            "known_findings_hit": known_hit,
            "explanation": explain.get("text", ""),
            "exhaustive": False,
        },
        "assumptions": list(stubs) + list(outside),
        "wall_s": round(wall, 2),
        "violations": len(violations),
    }
    evdir = os.environ.get("VERIF_EVIDENCE_DIR") or os.path.join(VERIF, "evidence")
    os.makedirs(evdir, exist_ok=True)
    json.dump(ev, open(os.path.join(evdir, f"{pid}.json"), "w"), indent=1)
    print(f"{pid} tier={tier}: conditions={len(conds)} confirmed={discharged}/{n_obl} paths={ev['coverage']['states']} smt_decisions={ev['coverage']['transitions']} wall={wall:.1f}s")
    for fn, msg, rp in violations[:3]:
        print(f"  refuted condition '{fn}': {msg}")
        print(f"VIOLATION property={pid} replay={rp}")
        code = 1
    if code == 0:
        for pb in problems:
            print(f"HARNESS-ERROR: {pb}" if "inconclusive" not in pb else f"INCONCLUSIVE: {pb}")
            code = 2
    return code


def replay_file(path):
    d = json.load(open(path))
    mod = importlib.import_module(d["module"])
    val = eval(d["call"], vars(mod))
    ok = val is False
    print(("REPRODUCED: " if ok else "not reproduced: ") + d["call"] + f" -> {val!r}")
    return ok
