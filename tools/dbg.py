"""tools/dbg.py <check module> <config name> [timeout_ms] -- run one configuration in-process with per-obligation timing."""
import importlib, sys, time
sys.path.insert(0, '/verif')
mod = importlib.import_module('harness.' + sys.argv[1].lower())
from harness.common import sx, core, z3
cls = getattr(mod, sys.argv[1].upper())
c = cls()
tier = 'thorough' if '--thorough' in sys.argv else 'quick'
cfg = [x for x in c.configs(tier) if x['name'] == sys.argv[2]][0]
if len(sys.argv) > 3 and sys.argv[3].isdigit():
    cfg['timeout_ms'] = int(sys.argv[3])
ctx = c.ctx_for(cfg, 0); ctx.cfg = cfg
h = c.harness(cfg)
orig = ctx.prove
def prove(goal, label, detail=None):
    t = time.time(); n = len(ctx.failures)
    r = orig(goal, label, detail)
    st = 'ok' if r else ('FAIL' if len(ctx.failures) > n else 'unknown')
    if st != 'ok' or time.time() - t > 1:
        print(label, st, round(time.time() - t, 2), detail, flush=True)
        if st == 'FAIL':
            print('   env', {k: v for k, v in ctx.failures[-1].env.items() if k != '__purified__' and '!' not in k})
    return r
ctx.prove = prove
osolve = core.solve
def solve(fs, cx, to, **kw):
    t = time.time(); r = osolve(fs, cx, to, **kw); dt = time.time() - t
    if dt > 2:
        import traceback
        st = [f"{f.name}:{f.lineno}" for f in traceback.extract_stack()[-9:-2]]
        print('  slow query', round(dt, 1), r[0], kw, st, flush=True)
    return r
core.solve = solve
t0 = time.time()
try:
    sx.explore(h, ctx)
except Exception as e:
    import traceback; traceback.print_exc()
print('paths', ctx.stats.paths, 'cut', ctx.stats.cut_paths, 'queries', ctx.stats.queries, 'obl', ctx.stats.obligations, 'ok', ctx.stats.discharged, 'wall', round(time.time() - t0, 1), 'failures', [f.label for f in ctx.failures][:5], 'inconclusive', ctx.inconclusive[:3])
