#!/bin/sh
# tools/seed_eval.sh <id> <k> [--tests] : confirm a seeded change in its scratch worktree:
# demo passes on the clean tree, fails with the patch; optionally the pinned suite still passes.
ID=$1; K=$2; WT=/tmp/seed/$ID; D=$WT/OUT/$K
cd $WT || exit 2
git -C $WT checkout -q -- src
( cd $D && PYTHONPATH=$WT/src timeout 900 /venv/bin/python demo.py > $D/verify_clean.txt 2>&1 ); c0=$?
git -C $WT apply $D/patch.diff || { echo "$ID/$K patch does not apply"; exit 2; }
( cd $D && PYTHONPATH=$WT/src timeout 900 /venv/bin/python demo.py > $D/verify_patched.txt 2>&1 ); c1=$?
t="skipped"
if [ "$3" = "--tests" ]; then t=$(/tmp/seed/run_tests.sh $WT | tail -1); fi
git -C $WT checkout -q -- src
echo "$ID/$K demo_clean_exit=$c0 demo_patched_exit=$c1 tests: $t"
