#!/usr/bin/env python3
"""tools/seed_keep.py <ID> <K> <json-file-with-meta-fields> : copy a confirmed seeded change from its
scratch worktree into /verif/seeded/<ID>-<K>/ (patch.diff, demo.py, README.md, meta.json)."""
import json, os, shutil, sys
ID, K, metaf = sys.argv[1], sys.argv[2], sys.argv[3]
src = f"/tmp/seed/{ID}/OUT/{K}"
dst = f"/verif/seeded/{ID}-{K}"
os.makedirs(dst, exist_ok=True)
for f in ("patch.diff", "demo.py", "README.md"):
    shutil.copy(os.path.join(src, f), os.path.join(dst, f))
meta = json.load(open(metaf))
meta.setdefault("property", ID)
for f in ("verify_clean.txt", "verify_patched.txt"):
    p = os.path.join(src, f)
    if os.path.exists(p):
        meta[f.replace(".txt", "_tail")] = open(p).read()[-400:]
json.dump(meta, open(os.path.join(dst, "meta.json"), "w"), indent=1)
print("kept", dst)
