#!/usr/bin/env python3
"""Regenerate /verif/MANIFEST.json from the table below (kept in one place so
that the manifest is always valid and the not_applicable list is always the
complement of the claimed checks)."""

import json
import os

HERE = os.path.dirname(os.path.dirname(os.path.abspath(__file__)))

SX = "bounded symbolic execution of the real aspire functions on a z3-backed Array-API namespace (engine SX); each obligation is decided by z3 (qfnra-nlsat after purification / SMT core) over all inputs within the stated bounds; counterexamples are replayed on the real code with NumPy before being reported"
CH = "CrossHair symbolic execution (z3) of a bounded operation-sequence harness driving the real aspire methods over dict-backed fakes; only 'Confirmed over all paths' counts"

CHECKS = {
    "C01": dict(
        text="Partial (exact expectation on finite sample spaces). The proposal draws from k=2 support points with symbolic probabilities, likelihood and prior take symbolic values there, the generator's weighted draw returns each index vector with the probability the library handed to it, and the MCMC kernel is a lazy exact kernel whose transition probabilities are computed from the target log-density the library handed to it. The real ImportanceSampler.sample and the real MiniPCNSMC/SMCSampler.sample loop (fixed schedules of 1 and 2 steps, N=2) are executed once per outcome of the bounded randomness (4 / 16 / 64 / 144 outcomes); the sum over outcomes of probability times estimate is one polynomial identity over the positive atoms exp(ll_j), exp(lp_j), u_j which the solver decides for ALL densities at once: E[Zhat] = sum_j L_j PI_j (unbiased evidence) and E[Zhat * mean_i f(x_i)] = sum_j L_j PI_j f(s_j) (unbiased weighted particle measure, f = indicator of a support point), and the outcome probabilities sum to one.",
        note="This decides the part of C01 that is a statement about exact expectations; it is not a statement about Monte-Carlo error on continuous targets, which needs replicates (sampling) and is outside this technique. Outside: continuous targets, adaptive schedules (consistent, not unbiased), k>2 / N>2 (thorough adds N=3 and k=3 for importance sampling), more than 2 tempering steps, EmceeSMC/BlackJAX variants, the third-party kernels, and the on/off invariance of preconditioning (its deterministic content -- bijection and Jacobian in the kernel target -- is decided under C04/C05). Enumerating the outcomes is the expectation integral itself, every outcome enters with its exact symbolic weight.",
        ref="6/C01, 12.6",
    ),
    "C02": dict(
        text="Every clause of the weight/evidence/ESS specification is an SMT obligation over all log-density vectors of N<=3 (quick) / N<=5 (thorough) samples, on every feasible path of the real Samples.compute_weights / logsumexp / effective_sample_size / rejection_sample; two-run hyper-properties (permutation, constant shift) are proved in one query. The float clause is decided in the FP sort (Float64 and Float32, N=2; N=3 thorough): for all finite log-weights up to 1e5 and for vectors with -inf entries, log_evidence and the ESS are finite and the relative evidence error is never NaN. Histories on one object (inspect, change the log-densities, compute_weights() again; constructor handed an evidence together with all three log-densities; fill-in-then-compute as the importance sampler does) and selections by every index vector of length M (repeats included, M = N too): the weights, ESS and efficiency are those of the object's current rows.",
        note="Reals for floats (ulp rounding outside); generic namespace branch only; generator stub returns arbitrary draws in (0,1); float constants equal to math.log(k) are read as ln k; FP exp/log are uninterpreted with range/monotonicity axioms, FP arithmetic is first abstracted soundly; accuracy (as opposed to finiteness) at extreme magnitudes is not decided.",
        ref="6/C02",
    ),
    "C03": dict(
        text="Partial. The real ZukoFlow / FlowJax log_prob, sample_and_log_prob, sample, forward and inverse (code objects re-bound so that tensor construction is the identity on symbolic arrays) over the real FlowTransform built by the real Aspire.init_flow wiring (logit / probit / off, affine as wired), with an abstract network (base density uninterpreted, bijection with an exact inverse): log_prob(x) = B(T x) + log|det T'(x)| with the Jacobian obtained by symbolic differentiation of the executed forward map; the log-density attached to drawn samples equals log_prob at those samples; draws lie strictly inside the declared bounds; forward/inverse are mutual inverses with opposite log-Jacobians, for all bounds, all fitted affine states and all points outside the clipping margin. Every function, property and classmethod of the wrapper classes is re-bound (compilation decorators such as jit / filter_jit are the identity), and the agreement clauses are posed again after the network has been replaced by a (re-)fit: evaluation must follow the network that sampling uses.",
        note="The trained network is abstract (a normalised third-party flow is trusted); quadrature of the density, training, float32 and save/load of weights are outside; d=1 (quick) / 2 (thorough), batch 2; draws inside the eps=1e-6 clipping margin are outside.",
        ref="6/C03",
    ),
    "C04": dict(
        text="Round trip, forward log-Jacobian (against a symbolic differentiator applied to the code's own forward map), inverse-equals-minus-forward, periodic wrapping, fit==forward and the clipping margin are SMT obligations over all bounds lower<upper, all interior points, all fitted affine states, for every transform class and all 11 non-trivial composite configurations.",
        note="Reals for floats; erf/erfinv axiomatised (monotone, odd, inverse pair, derivative); x % w encoded with |k|<=4 periods; infinite bounds and torch/jax outside; d<=2 batch 2 quick, d<=3 batch 3 thorough.",
        ref="6/C04",
    ),
    "C05": dict(
        text="sampler.log_prob(z, beta) of SMCSampler, MiniPCNSMC, BlackJAXSMC and MCMCSampler equals (1-beta) Q(x) + beta (L(x)+PI(x)) + log|det dx/dz| row-wise for symbolic beta in (0,1], arbitrary pre-image/log-Jacobian (stub transform) and the real Identity/Composite transforms, with L, PI, Q uninterpreted (UF congruence exposes evaluation at the wrong point); the zero-prior => -inf and never-NaN clauses are FP-sort (Float64 and Float32) obligations over all IEEE values incl. +-inf/NaN, also with immutable arrays (the JAX update discipline that utils.update_at_indices supports).",
        note="User functions and the proposal are uninterpreted functions of the coordinates; FP obligations are first decided on a sound special-value abstraction of IEEE arithmetic and bit-precisely otherwise; kernels themselves and jax tracing outside.",
        ref="6/C05",
    ),
    "C06": dict(
        text="Step: on every feasible bisection path of the real determine_beta over all populations (N<=3), symbolic target efficiency (scalar / ramp) and the three min-step modes: no exception, beta_prev < beta' <= 1, floor honoured, rescaled min_step valid. Fixed schedule: n_steps is a symbolic bit-vector, 1/n an FP division, the real (logging-stripped) sample() loop runs in Float64 and the solver shows exactly n iterations ending at exactly 1.0 for every n in the bound. Whole runs (loop harness) incl. non-degenerate adaptive N=2 runs (target 0.75), a binding step cap, and runs interrupted and resumed from the serialised payload and from the live dictionary: ladder strictly increasing in (0,1], ends at exactly 1 (or at the cap), fixed schedules perform exactly n iterations, the interrupted and the resumed part together move the population exactly as often as the uninterrupted run.",
        note="Temperatures/tolerance concrete dyadic (beta_prev in {0, 1/2, 3/4}: the last makes the floor beta_prev + min_step exceed 1); n_steps <= 12 (quick) / 52 (thorough); population stubbed out in the fixed-schedule harness (ladder independent of it when adaptive=False); known finding C06-D4 (beta stuck with min_step=0) listed in known_findings.json.",
        ref="6/C06",
    ),
    "C07": dict(
        text="On every feasible bisection path of the real determine_beta: the chosen temperature meets the ESS target in force at the current temperature (spec-side ESS written independently over exp atoms), some probe within the tolerance above it fails the target (maximality), a full step that meets the target is taken, and floor-forced steps are exactly the floor; for all populations, symbolic scalar/ramped targets, tolerance 1/4 (thorough: also 1/8 for N=2, and for N=3 from beta_prev=1/2 with the step cap); also after histories of the public target_efficiency setter on one sampler object (ramp then scalar, scalar then ramp, three settings in a row): the target in force is the last one set.",
        note="Temperatures and tolerance concrete dyadic rationals; symbolic targets written to the sampler's private fields (the public setter is exercised with floats); N<=3 (N=4 and N=3 with tolerance 1/8 from beta_prev=0 did not finish in 40 minutes and are not claimed).",
        ref="6/C07",
    ),
    "C08": dict(
        text="Whole SMC runs of the real MiniPCNSMC/EmceeSMC sample() loop with symbolic populations, kernel outputs and resample indices: every recorded per-step ratio equals log mean exp((b'-b)(L+PI-Q)) recomputed from the population stored before that step's resampling (via uninterpreted L, PI, Q of the stored coordinates), every per-step variance equals Var(w)/(N mean(w)^2), log_evidence is their sum and log_evidence_error the root of the summed variances, with and without final-sample enlargement, and again on runs resumed from a checkpoint (bytes and the live in-memory dictionary: every step summed exactly once). A function-level FP-sort configuration covers populations with zero-weight (log-likelihood -inf) particles: the ratio is the library's logsumexp over ALL particles minus log N.",
        note="Loop harness bounds: N=2 (quick) / N<=3 (thorough) particles, d=1, <=2 (quick) / <=4 (thorough) iterations, schedules fixed 1/2(/4), adaptive with min_step 1/2 (and max_n_steps, unbounded in thorough; paths reaching the unrolling bound are counted as cut); user functions, proposal, generator and MCMC kernels are stubs (uninterpreted functions / symbolic streams / fake kernel modules); SMCSampler.sample is a logging-stripped copy of the current source with beta_tolerance 1/4.",
        ref="6/C08",
    ),
    "C10": dict(
        text="For every population a run hands out or records (initial, each history entry, final, and the same in every resumed run): stored log_likelihood/log_prior/log_q of row i equal L, PI, Q of row i's coordinates (UF congruence: a value paired with another row's coordinates is refutable), initial and final sizes as requested. The initial-population harness in the FP sort lets the prior be -inf/+inf/NaN per row so that the finite-prior filter, concatenation and trimming of draw_initial_samples run symbolically (up to 3 draw rounds); loop configurations with the real bounded (logit) preconditioning transform run for MiniPCNSMC and EmceeSMC.",
        note="Loop harness bounds: N=2 (quick) / N<=3 (thorough) particles, d=1, <=2 (quick) / <=4 (thorough) iterations, schedules fixed 1/2(/4), adaptive with min_step 1/2 (and max_n_steps, unbounded in thorough; paths reaching the unrolling bound are counted as cut); user functions, proposal, generator and MCMC kernels are stubs (uninterpreted functions / symbolic streams / fake kernel modules); SMCSampler.sample is a logging-stripped copy of the current source with beta_tolerance 1/4. FP harness: N<=2 requested, <=2 draw rounds (cut beyond), Float64.",
        ref="6/C10",
    ),
    "C11": dict(
        text="Two runs per path: a reference run checkpointing every iteration (payload serialised with the sampler's own serialize_checkpoint; symbolic populations survive pickling) and, for every checkpoint, a fresh sampler with a generator in a different state resumed from the bytes / the unpickled dict / the very dictionary handed to the callback (after the run moved on) / a real HDF5 file written by default_file_checkpoint_callback after a fault injected at every likelihood call; the solver shows equal temperature ladders, populations, evidence and every history series.",
        note="Loop harness bounds: N=2 (quick) / N<=3 (thorough) particles, d=1, <=2 (quick) / <=4 (thorough) iterations, schedules fixed 1/2(/4), adaptive with min_step 1/2 (and max_n_steps, unbounded in thorough; paths reaching the unrolling bound are counted as cut); user functions, proposal, generator and MCMC kernels are stubs (uninterpreted functions / symbolic streams / fake kernel modules); SMCSampler.sample is a logging-stripped copy of the current source with beta_tolerance 1/4. Known finding C11-D6 (rescaled min_step not checkpointed) is listed in known_findings.json; The Aspire.resume_from_file constructor is exercised by the resume_file configurations.",
        ref="6/C11",
    ),
    "C12": dict(
        text="Partial. Cadence: checkpoint_every is a symbolic integer in {0,1,2,3} (0 = no periodic checkpoint), with a user callback and through the documented file route (the sampler's own file callback, observed while it writes the real file); the callback sequence equals {t: t mod every = 0} plus the forced final one and every payload carries the loop's current population, temperature and history length. After a fault at every likelihood call the real HDF5 file holds byte-for-byte the most recent payload; through the real Aspire.sample_posterior the interrupted run's file additionally holds /aspire_config and /flow and is accepted by Aspire.resume_from_file. Blob overwrite: the real dump_pickle_to_hdf against a dataset model with symbolic old/new lengths leaves exactly the new blob (length and content at every index).",
        note="Loop harness bounds: N=2 (quick) / N<=3 (thorough) particles, d=1, <=2 (quick) / <=4 (thorough) iterations, schedules fixed 1/2(/4), adaptive with min_step 1/2 (and max_n_steps, unbounded in thorough; paths reaching the unrolling bound are counted as cut); user functions, proposal, generator and MCMC kernels are stubs (uninterpreted functions / symbolic streams / fake kernel modules); SMCSampler.sample is a logging-stripped copy of the current source with beta_tolerance 1/4. Atomicity of a write interrupted inside h5py and the consistency of /aspire_config and /flow with the checkpoint (C14) are outside.",
        ref="6/C12",
    ),
    "C14": dict(
        engine="CH",
        text="CrossHair explores every program of up to 3 (quick) / 4 (thorough) operations over 12 operation kinds (fit with/without path and overwrite, importance/SMC sampling with explicit, automatic or no checkpoint path, auto_checkpoint contexts with refit inside, resume_from_file then sample, an explicit resume_from=None, resume_from_file then refit then an explicit fresh start) on one file through the real Aspire.fit / sample_posterior / auto_checkpoint / resume_from_file / save_config / save_flow / load_flow; after every operation the stored proposal must be the one the stored checkpoint was weighted under, the stored configuration must name the sampler that wrote it, and a resumed sampler must not receive a population weighted under another proposal. Only 'Confirmed over all paths' counts; one condition per first operation keeps each search exhaustible.",
        note="File, flow and samplers are dict-backed fakes (flow identity tags); five known-finding regions (C14-D8a..e, known_findings.json) are excluded by violated clause and operation kind and each is re-confirmed concretely on every run.",
        ref="6/C14",
    ),
    "C16": dict(
        text="For BaseSamples, Samples and SMCSamples built in the symbolic namespace with every cell a distinct variable and every optional-field subset: selection by slice, integer position, symbolic Boolean mask and symbolic integer index array, split-and-concatenate, pickle and flat/nested dict round trips, in sequences of up to 2 (quick) / 3 (thorough) operations, compared field by field (including log_w and weights, parameters, namespace, dtype tag, beta) with a plain-list reference model; evidence attached to a set, weighted or not, is carried (a value that cannot be recomputed is planted).",
        note="N=3 (quick) / 4 (thorough), d=2; sequences enumerated, contents symbolic; known finding C16-D11 (SMCSamples.concatenate drops beta).",
        ref="6/C16",
    ),
    "C19": dict(
        engine="CH",
        text="CrossHair confirms over all paths that for every nesting (depth <= 3 quick, 4 thorough) of the real enable_pool/PoolHandler and auto_checkpoint contexts, with an exception injected at every position or none, both close_pool values, parallelize_prior on/off, pre-existing checkpoint defaults or none and same-path or distinct-path nesting: log_likelihood, log_prior and _checkpoint_defaults are the identical objects with unchanged content after leaving each level, and each pool is closed exactly once iff asked; also when the pool's own close() or join() raises (depth <= 2), and when the auto_checkpoint handles are created up front or inside an already finished context and entered later.",
        note="Pool is a fake counting close()/join(); an exception raised inside __enter__ itself is outside.",
        ref="6/C19",
    ),
    "C17": dict(
        text="The likelihood stub poses, at every call made during whole runs (initial draws, kernel target evaluations, post-mutation re-evaluation, final enlargement, resumed runs), the obligations that the sample set it receives carries a log_prior of the right length equal to PI of exactly those coordinates, and at the end that n_likelihood_evaluations equals the number of points it was asked for; for a sampler that resumed an interrupted run (resume in memory, and from the file left by a fault injected at every likelihood call) the reported count is the points asked of this sampler or those plus all points asked of the interrupted run -- nothing else; function-level configurations cover the importance sampler, the plain MCMC samplers (Emcee, MiniPCN over fake kernels), Aspire.convert_to_samples and, in the FP sort (prior may be -inf per point), the multi-round initial draw and the kernel targets when every point is outside the prior.",
        note="Loop harness bounds: N=2 (quick) / N<=3 (thorough) particles, d=1, <=2 (quick) / <=4 (thorough) iterations, schedules fixed 1/2(/4), adaptive with min_step 1/2 (and max_n_steps, unbounded in thorough; paths reaching the unrolling bound are counted as cut); user functions, proposal, generator and MCMC kernels are stubs (uninterpreted functions / symbolic streams / fake kernel modules); SMCSampler.sample is a logging-stripped copy of the current source with beta_tolerance 1/4.",
        ref="6/C17",
    ),
    "C18": dict(
        text="On every path of whole runs and of every resumed run: each populated series has one entry per iteration, sample_history has K+1 entries (initial + one per iteration), each stored population carries its temperature, and each recorded ESS / ESS-at-one / target efficiency equals its definition recomputed from the neighbouring stored populations and temperatures.",
        note="Loop harness bounds: N=2 (quick) / N<=3 (thorough) particles, d=1, <=2 (quick) / <=4 (thorough) iterations, schedules fixed 1/2(/4), adaptive with min_step 1/2 (and max_n_steps, unbounded in thorough; paths reaching the unrolling bound are counted as cut); user functions, proposal, generator and MCMC kernels are stubs (uninterpreted functions / symbolic streams / fake kernel modules); SMCSampler.sample is a logging-stripped copy of the current source with beta_tolerance 1/4. mcmc_acceptance is required to have one entry per kernel invocation (the final enlargement is a kernel invocation).",
        ref="6/C18",
    ),
    "C20": dict(
        text="Partial. Two executions on the same symbolic random stream yield identical terms for every output and history series, and random-source provenance: every draw is served by the generator object the user supplied through the sampler constructor, through sample(rng=...) and through the real Aspire.sample_posterior keyword routing; numpy.random.default_rng and orng.ArrayRNG are instrumented: a draw served by a generator the library constructed itself is a violation; the object that reaches the sampler is the user's generator itself, not a copy. Flow construction (ZukoFlow / BaseTorchFlow / FlowJax constructors, FlowPreconditioningTransform.fit, Aspire.init_flow) over symbolic models of torch's global generator (seed -> SEED(s), draws advance the state, arbitrary state before) and of JAX keys (uninterpreted key / split / fold_in) with process-dependent sources (salted hash(), id(), clock, python's global generator) stubbed differently in two constructions: the torch network is built from SEED(user seed) whatever ran before, and the seed / key / options reaching the network are the same terms in both constructions.",
        note="Loop harness bounds: N=2 (quick) / N<=3 (thorough) particles, d=1, <=2 (quick) / <=4 (thorough) iterations, schedules fixed 1/2(/4), adaptive with min_step 1/2 (and max_n_steps, unbounded in thorough; paths reaching the unrolling bound are counted as cut); user functions, proposal, generator and MCMC kernels are stubs (uninterpreted functions / symbolic streams / fake kernel modules); SMCSampler.sample is a logging-stripped copy of the current source with beta_tolerance 1/4. Flow TRAINING (fit) and the third-party kernels are outside; known finding C20-D10.",
        ref="6/C20, 12.8",
    ),
    "C13": dict(
        text="Partial (everything but flows). The real save / load code of the transforms, the sample classes, the histories and the configuration (save/load/_save_state/_load_state/config_dict, BaseSamples.save/load/_encode_for_hdf5/_decode_from_dictionary/to_dict/from_dict, SMCHistory.save/load, recursively_save_to_h5_file, load_from_h5_file, encode/decode_for_hdf5, encode/decode_dtype, encode/decode_samples, Aspire.save_config/config_dict/resume_from_file/_build_aspire_from_file) runs against a hybrid container -- a real in-memory h5py file for every concrete value, name, group, attribute and string, a side table for array payloads with symbolic cells. Transforms (CompositeTransform with every combination of periodic / logit / probit / affine parts, FlowTransform, AffineTransform; symbolic bounds lower<upper, symbolic fitted state, non-default eps, float32, parameter names in non-alphabetical order): saved settings, bounds and fitted state, and the SAME forward and inverse map (value and log-Jacobian) at symbolic points inside the bounds and, for the bounded parts, anywhere between the bounds. Sample sets (three classes, flat and nested layout, with/without optional fields): every cell of every field, parameter names, namespace, precision, temperature, evidence. SMC histories: every series in order and every stored population, also with 12 populations. Aspire: the instance rebuilt by resume_from_file has the saved settings (dims, parameters, periodic parameters, bounds for all values, bounded options, flow back-end and flow options, eps, namespace, precision).",
        note="NOT decided: flows and neural-network weights (torch / equinox serialisation) and what h5py does to concrete array payloads (float width on disk, encodings) -- those need concrete I/O runs, a different technique. Stubs: h5py returns a float array as stored; the sample classes' conversion to NumPy before saving is the identity on symbolic arrays (C15's matter). d=2 (thorough d=3), N<=2 rows, <=12 populations.",
        ref="6/C13, 12.7",
    ),
    "C15": dict(
        text="Partial (precision and conversion plumbing). (1) Whole runs of the real MiniPCNSMC / EmceeSMC sample() loop on the symbolic namespace, whose arrays carry a dtype tag that follows the Array-API promotion rules, with dtype='float32' (string and dtype object) requested at construction while the proposal, the user's functions and the kernel hand back float64: on every feasible path every population the sampler records in its history, hands to a checkpoint callback, restores from a checkpoint (bytes and the live dictionary, in a fresh sampler) and returns (with and without final enlargement) carries the requested width in the object and in every array it holds. (2) The namespace-generic conversion code of BaseSamples / Samples / SMCSamples (from_samples with and without dtype override and across classes, to_namespace with and without dtype, to_standard_samples, a selection followed by a conversion) with the symbolic namespace as source and target and every cell a distinct symbolic variable: same value in every cell of every field, every optional field kept (per-sample fields, temperature, attached evidence), requested / inherited float width.",
        note="What NumPy, PyTorch and JAX themselves do when an array crosses from one library to another (DLPack, device moves, the three libraries' dtype objects) for every ordered pair, the sampling call's output-namespace option and proposal outputs consumed in another namespace are NOT decided: they are concrete C-implemented conversions with nothing symbolic to quantify over; this check only decides the part of C15 that lives in aspire's own namespace-generic Python code. Loop-harness bounds as for C08 (N=2, d=1, <=2 iterations quick / <=3 thorough; schedules fixed2, adaptive_half (+fixed1 thorough)); API family N=3, d=2. Known findings C15-F2 (SMCSamples.to_namespace drops beta and evidence) and C15-F3 (conversion of a selection recomputes the evidence) are listed in known_findings.json.",
        ref="6/C15, 12.6",
    ),
    "C09": dict(
        text="For the real SMCSamples.resample: the probability vector handed to the generator is proportional to exp((b1-b0)(ll+lp-lq)) and sums to one, and with a symbolic index vector (one ite-select path covers all N^M index vectors) every output row equals its source row in x, log_likelihood, log_prior and log_q; new beta, requested size, parameters and dtype preserved; also on an object whose weights were inspected and whose fields were then re-assigned, and for a same-temperature call with an explicit size. The same clauses are posed on every resampling performed inside whole runs of the real SMCSampler.sample (one per tempering iteration and the final n_final_samples enlargement): the vector at the generator stub is proportional to the incremental weights of the recorded source population, the number drawn is the size requested, and the rows handed to the kernel are the drawn copies of the source rows.",
        note="Temperatures on the grid {0,1/4,1/2,3/4,1}; N<=3 (quick) / N<=4 (thorough), d=2; generator stub offers only the weighted draw (any other request is a refutation); reals for floats; whole runs within the loop-harness bounds (N=2, d=1, <=2 iterations quick / N<=3, <=4 iterations thorough).",
        ref="6/C09",
    ),
}

NA = {
}

PENDING = "check not built yet (build in progress; planned in DESIGN.md section 6)"


def main():
    props = [json.loads(l)["id"] for l in open(os.path.join(HERE, "properties.jsonl"))]
    checks = []
    for pid in props:
        c = CHECKS.get(pid)
        if not c:
            continue
        engine = c.get("engine", "SX")
        checks.append(
            {
                "property_id": pid,
                "quick_cmd": f"./check {pid} --tier quick",
                "thorough_cmd": f"./check {pid} --tier thorough",
                "evidence_file": f"evidence/{pid}.json",
                "replay_cmd_template": f"./check {pid} --replay {{path}}",
                "engine": engine,
                "level_claimed": {
                    "category": "model_checking",
                    "text": c["text"],
                    "design_ref": c["ref"],
                },
                "level_note": c["note"],
                "technique": CH if engine == "CH" else SX,
            }
        )
    na = []
    for pid in props:
        if pid in CHECKS:
            continue
        na.append({"property_id": pid, "reason": NA.get(pid, PENDING)})
    m = {
        "version": 1,
        "setup_cmd": "./setup.sh",
        "hooks": {
            "guard": "ASPIRE_VERIF",
            "enable": "none: no source hooks; the harness injects its stubs from outside (constructor arguments, sys.modules, re-bound code-object globals). ASPIRE_VERIF=1 only switches the harness's own injection on.",
            "baseline_off_cmd": "cd /repo && /venv/bin/python -m pytest -ra -q -p no:cacheprovider --timeout=900 --continue-on-collection-errors",
            "source_commits": [],
            "add_only": True,
        },
        "engines": [
            {
                "name": "SX",
                "path": "sx/",
                "serves_properties": [p for p in props if p in CHECKS and CHECKS[p].get("engine", "SX") == "SX"],
                "kind_free_text": "symbolic execution of the unmodified aspire bytecode on a z3-backed Array-API namespace (DFS over decision vectors with re-execution), exact exp/log algebra over positive atoms, purification + qfnra-nlsat; FP sort for IEEE clauses",
            },
            {
                "name": "CH",
                "path": "ch/",
                "serves_properties": [p for p in props if p in CHECKS and CHECKS[p].get("engine") == "CH"],
                "kind_free_text": "CrossHair 0.0.110 on program-encoded operation sequences over the real pure-Python control code",
            },
        ],
        "checks": checks,
        "notes": "See DESIGN.md. Exit codes: 0 held, 1 reproduced violation, 2 inconclusive/harness error (never a verdict).",
        "not_applicable": na,
    }
    with open(os.path.join(HERE, "MANIFEST.json"), "w") as f:
        json.dump(m, f, indent=1)
    print("claimed:", [c["property_id"] for c in checks])


if __name__ == "__main__":
    main()
