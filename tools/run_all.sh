#!/bin/sh
# tools/run_all.sh [quick|thorough] -- run every registered check sequentially on the current tree,
# print one line per check, exit non-zero if any check did.
TIER=${1:-quick}
ONLY="$2"
cd "$(dirname "$0")/.."
rc=0
for id in ${ONLY:-$(python3 -c "import json;print(' '.join(c['property_id'] for c in json.load(open('MANIFEST.json'))['checks']))")}; do
  t0=$(date +%s)
  ./check $id --tier $TIER > /tmp/run_all_$id.log 2>&1; c=$?
  t1=$(date +%s)
  echo "$id exit=$c $((t1-t0))s $(grep -c '^KNOWN-FINDING' /tmp/run_all_$id.log) known-findings :: $(grep -E '^C[0-9]+ tier' /tmp/run_all_$id.log | cut -c1-160)"
  [ $c -ne 0 ] && rc=1
done
exit $rc
