#!/bin/sh
# tools/seed_matrix.sh [tier] [seed-dir-names...] : re-run, for every seeded change kept under
# /verif/seeded, the check of its property against a scratch worktree of /repo with the patch applied
# (ASPIRE_REPO; /repo itself is not touched; evidence goes to /tmp). One line per seed.
TIER=${1:-quick}; [ $# -gt 0 ] && shift
cd "$(dirname "$0")/.."
WT=/tmp/seed-matrix-wt
git -C /repo worktree remove --force $WT 2>/dev/null; rm -rf $WT
git -C /repo worktree add -q --detach $WT HEAD || exit 2
for d in ${@:-$(ls seeded)}; do
  P=seeded/$d/patch.diff; [ -f $P ] || continue
  prop=$(python3 -c "import json;print(json.load(open('seeded/$d/meta.json'))['property'])")
  chk=$(python3 -c "import json;print(json.load(open('seeded/$d/meta.json')).get('check', '$prop'))")
  git -C $WT checkout -q -- . ; git -C $WT apply $(pwd)/$P || { echo "$d patch does not apply"; continue; }
  t0=$(date +%s)
  ASPIRE_REPO=$WT VERIF_EVIDENCE_DIR=/tmp/verif-mutant-evidence VERIF_REPLAY_DIR=/tmp/verif-mutant-replays timeout 3600 ./check $chk --tier $TIER > /tmp/seed_matrix_$d.log 2>&1; c=$?
  t1=$(date +%s)
  echo "$d check=$chk exit=$c $((t1-t0))s violations=$(grep -c '^VIOLATION' /tmp/seed_matrix_$d.log) :: $(grep -m1 'refuted obligation' /tmp/seed_matrix_$d.log | cut -c1-150)"
done
git -C /repo worktree remove --force $WT; git -C /repo worktree prune
