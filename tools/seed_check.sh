#!/bin/sh
# tools/seed_check.sh <id> <k> <tier> <check ids...> : run checks against the seed's worktree with the
# patch applied (ASPIRE_REPO), without touching /repo.
ID=$1; K=$2; TIER=$3; shift 3
WT=/tmp/seed/$ID; D=$WT/OUT/$K
git -C $WT checkout -q -- src; git -C $WT apply $D/patch.diff || exit 2
for c in "$@"; do
  echo "--- seed $ID/$K vs check $c ($TIER)"
  ( cd /verif && ASPIRE_REPO=$WT VERIF_EVIDENCE_DIR=/tmp/verif-mutant-evidence ./check $c --tier $TIER 2>&1 | grep -E "^(C[0-9]+ tier|HARNESS|INCONC|VIOL|  refuted)" | cut -c1-260 | head -6; echo "exit=$?" )
done
git -C $WT checkout -q -- src
