#!/bin/sh
# tools/mut.sh <repo-relative file> <python-regex-from> <to> -- <check args...>
# Apply a one-line textual mutation to /repo, run a check, always restore.
f="$1"; from="$2"; to="$3"; shift 3; [ "$1" = "--" ] && shift
python3 - "$f" "$from" "$to" <<'PY'
import sys,re
f,a,b=sys.argv[1:4]
p='/repo/'+f; s=open(p).read()
if a not in s: print("MUTATION PATTERN NOT FOUND"); sys.exit(3)
open(p,'w').write(s.replace(a,b,1))
PY
[ $? -eq 3 ] && exit 3
cd /verif && VERIF_EVIDENCE_DIR=/tmp/verif-mutant-evidence ./check "$@" 2>&1 | grep -E "^(C[0-9]+ tier|HARNESS|INCONC|VIOL|KNOWN|  refuted)" | cut -c1-300 | head -8
git -C /repo checkout -- .
